# file: internal/app/app.go
s|^\t// set hosts online or offline depending on replication lag$|\tapp.logger.Debug().Msgf("master %s looks fine, going on with repairs", master)\n\t// set hosts online or offline depending on replication lag|
