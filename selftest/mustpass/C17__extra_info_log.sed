# file: internal/app/app.go
s|^\t\t\terr := node.SetOffline()$|\t\t\tapp.logger.Debug().Msgf("repair: about to set %s offline", host)\n\t\t\terr := node.SetOffline()|
