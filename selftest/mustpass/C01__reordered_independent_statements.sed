# file: internal/app/app.go
/^\tapp.logger.Info().Msgf("switchover: newMaster is %s", newMaster)$/{N;N;s|^\(\tapp.logger.Info().Msgf("switchover: newMaster is %s", newMaster)\)\n\n\(\tnewMasterNode := app.cluster.Get(newMaster)\)|\2\n\1\n|}
