# file: internal/app/app_files.go
s|app.logger.Warn().Msg("touch maintenance file")|app.logger.Info().Msg("creating the maintenance marker")|
s|\[\]byte(""), 0o644)|[]byte{}, 0o600)|
