# file: internal/mysql/switch_helper.go
s|^\tfq := max(len(activeNodes)-sh.GetRequiredWaitSlaveCount(activeNodes), 1)$|\trequired := sh.GetRequiredWaitSlaveCount(activeNodes)\n\tfq := max(len(activeNodes)-required, 1)|
