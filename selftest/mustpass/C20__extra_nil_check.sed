# file: internal/app/app.go
s|^\tmasterNode := app.cluster.Get(master)\n\tvar syncReplicas|&|;/^func (app \*App) repairOfflineMode/,/^}/{s|^\tmasterNode := app.cluster.Get(master)$|\tmasterNode := app.cluster.Get(master)\n\tif masterNode == nil {\n\t\treturn\n\t}|}
