# file: internal/app/app.go
s|app.logger.Error().Err(err).Msg("cannot perform switchover")|app.logger.Error().Err(err).Msg("switchover request was not approved")|
