# file: internal/mysql/cluster.go
s|c.logger.Info().Msgf("HA nodes: %s", hosts)|c.logger.Debug().Msgf("HA nodes: %s", hosts)|
