# file: internal/app/util.go
/^func findMostRecentNodeAndDetectSplitbrain/,/^}/ s|splitBrain|sb|g
