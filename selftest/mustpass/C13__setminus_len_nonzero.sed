# file: internal/mysql/gtids/wrapper.go
s|if len(diff) > 0 {|if len(diff) != 0 {|
