# file: internal/dcs/zk.go
s|^\terr = z.retryDelete(fullPath, stat.Version)$|\tversion := stat.Version\n\terr = z.retryDelete(fullPath, version)|
