# file: internal/app/util.go
/^func getMostDesirableNode/,/^}/ s|\tfor _, n := range positions {|\tfor _, n := range positions {\n\t\tlogger.Debug().Msgf("looking at %s", n.host)|
