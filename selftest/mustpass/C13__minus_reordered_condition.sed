# file: internal/mysql/gtids/wrapper.go
s|if bi >= len(b) \|\| b\[bi\].Start >= iv.Stop {|if !(bi < len(b)) \|\| iv.Stop <= b[bi].Start {|
