#!/usr/bin/env python3
# tools/design_table.py: rewrite the numeric columns of the DESIGN.md section 0.1 table from the committed evidence files
import json, re, sys
p = '/verif/DESIGN.md'
lines = open(p).read().split('\n')
for i, l in enumerate(lines):
    m = re.match(r'^\| (C\d\d) \| ([^|]*) \| ([^|]*) \| ([^|]*) \| (.*)$', l)
    if not m or i > 60:
        continue
    try:
        c = json.load(open('/verif/evidence/%s.json' % m.group(1)))['coverage']
        w = json.load(open('/verif/evidence/%s.json' % m.group(1)))['wall_s']
    except Exception:
        continue
    ob = str(c['discharged'])
    if c.get('known_finding_obligations'):
        ob += ' (+%d known)' % c['known_finding_obligations']
    lines[i] = '| %s | %s | %d | %d s | %s' % (m.group(1), ob, len(c['functions_under_contract']), round(w), m.group(5))
open(p, 'w').write('\n'.join(lines))
