#!/bin/bash
# tools/tryseed.sh <seeded dir> <prop...>: apply a seeded patch to /repo, run the checks, revert.
d="$1"; shift
cd /repo && git diff --quiet || { echo "/repo has uncommitted changes"; exit 2; }
git apply "$d/patch.diff" || { echo "patch does not apply"; exit 2; }
. /verif/bin/env.sh
(cd /repo && go build ./... ) || echo "BUILD FAILS"
for p in "$@"; do
  cp /verif/evidence/$p.json /tmp/tryseed-evidence-$p.json 2>/dev/null
  out=$(/verif/bin/check $p quick 2>&1); rc=$?
  # evidence written while the seeded change is applied must not stay in /verif/evidence
  [ -f /tmp/tryseed-evidence-$p.json ] && mv /tmp/tryseed-evidence-$p.json /verif/evidence/$p.json
  echo "== $p rc=$rc: $(echo "$out" | grep -c '^VIOLATION') violation line(s)"
  echo "$out" | grep '^VIOLATION' | sed 's/.*obligation=//' | cut -c1-160 | head -6
done
git -C /repo checkout -- . 
git -C /repo status --short | head -3
