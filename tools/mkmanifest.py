#!/usr/bin/env python3
"""Regenerates /verif/MANIFEST.json from tools/claims.json (per-property text) and the repo's hook commits."""
import json, subprocess, os
V = os.path.dirname(os.path.dirname(os.path.abspath(__file__)))
props = [json.loads(l) for l in open(f'{V}/properties.jsonl')]
claims = json.load(open(f'{V}/tools/claims.json'))
hooks = subprocess.run(['git', '-C', '/repo', 'log', '--format=%H %s'], capture_output=True, text=True).stdout.splitlines()
hook_commits = [l.split()[0] for l in hooks if l.split(' ', 1)[1].startswith('verif:')]
checks, na = [], []
for p in props:
    pid = p['id']
    c = claims.get(pid)
    if not c or c.get('not_applicable'):
        na.append({"property_id": pid, "reason": (c or {}).get('not_applicable', 'contracts not built yet in this revision')})
        continue
    checks.append({
        "property_id": pid,
        "quick_cmd": f"bin/check {pid} quick",
        "thorough_cmd": f"bin/check {pid} thorough",
        "evidence_file": f"/verif/evidence/{pid}.json",
        "replay_cmd_template": "bin/replay {path}",
        "engine": "govc",
        "level_claimed": {"category": "proof", "text": c['level_text'], "design_ref": c.get('design_ref', 'DESIGN.md section 4 ' + pid)},
        "level_note": c['level_note'],
        "technique": c.get('technique', 'contract-based deductive verification: WP/symbolic-execution VCs over go/ssa of the real functions, discharged by z3/cvc5'),
    })
m = {
    "version": 1,
    "setup_cmd": "bin/setup",
    "hooks": {
        "guard": "verif",
        "enable": "go build -tags verif; govc loads /repo with -tags=verif (comment-only contract files internal/**/verif_contracts.go; replay-only constructors in internal/mysql/verif_hooks.go when present)",
        "baseline_off_cmd": ". /verif/bin/env.sh; cd /repo && go test -json -vet=off -count=1 -timeout 25m ./...",
        "source_commits": hook_commits,
        "add_only": True,
    },
    "engines": [{"name": "govc", "path": "/verif/govc", "serves_properties": [c['property_id'] for c in checks],
                 "kind_free_text": "self-written VC generator (forward symbolic execution = WP over go/ssa naive form of /repo's working tree, loops cut at invariants, calls replaced by callee contracts); contracts are //@ comments behind build tag verif; each obligation is one SMT-LIB query raced on z3 4.8.12, z3 5.1.0, cvc5 1.0.3"}],
    "checks": checks,
    "not_applicable": na,
    "notes": "Technique family: contract-based deductive verification of the real code. See DESIGN.md. known_findings.json lists genuine defects recorded rather than repaired.",
}
json.dump(m, open(f'{V}/MANIFEST.json', 'w'), indent=1)
print(f"{len(checks)} checks, {len(na)} not applicable, hooks: {len(hook_commits)}")
