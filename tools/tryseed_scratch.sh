#!/bin/bash
# tools/tryseed_scratch.sh <seeded dir> <prop...>: like tryseed.sh but against a scratch copy (never touches /repo or
# /verif/evidence; safe while other runs are reading /repo)
d="$1"; shift
. /verif/bin/env.sh
S=$(mktemp -d /tmp/tryseed.XXXXXX)
rsync -a --exclude .git /repo/ "$S/repo/"
(cd "$S/repo" && patch -p1 -s < "$d/patch.diff") || { echo "patch does not apply"; rm -rf "$S"; exit 2; }
(cd "$S/repo" && go build ./...) || echo "BUILD FAILS"
for p in "$@"; do
  mkdir -p "$S/out-$p"
  out=$(/verif/bin/govc check $p quick -repo "$S/repo" -verif /verif -out "$S/out-$p" 2>&1); rc=$?
  echo "== $p rc=$rc: $(echo "$out" | grep -c '^VIOLATION') violation line(s)"
  echo "$out" | grep '^VIOLATION' | sed 's/.*obligation=//' | cut -c1-170 | head -6
done
rm -rf "$S"
