#!/usr/bin/env python3
# tools/keepseed.py <id> <src dir> <caught-by text> [dest-name]: store a confirmed seeded change under /verif/seeded/<name>/
import sys, json, os, shutil, re
pid, src, caught = sys.argv[1], sys.argv[2], sys.argv[3]
name = sys.argv[4] if len(sys.argv) > 4 else pid
dst = f"/verif/seeded/{name}"
os.makedirs(dst, exist_ok=True)
for f in os.listdir(src):
    if f == "meta.json": continue
    s = open(os.path.join(src, f)).read()
    if f == "demo.sh":
        s = s.replace("/tmp/seedkit/verif_hooks.go", "/verif/replay/hooks/verif_hooks.go").replace("/tmp/seedkit/", "/verif/replay/harness/")
    open(os.path.join(dst, f), "w").write(s)
    if f.endswith(".sh"): os.chmod(os.path.join(dst, f), 0o755)
m = json.load(open(os.path.join(src, "meta.json")))
m["author"] = "independent sub-agent given only the property text and a scratch worktree without the contract files"
m["confirmed"] = {
    "by": "tools/confirmseed.sh in a fresh scratch worktree",
    "demo_on_unchanged_code": "pass", "build_and_existing_tests_with_change": "pass", "demo_with_change": "fail",
}
m["checks"] = caught
json.dump(m, open(os.path.join(dst, "meta.json"), "w"), indent=1)
print("kept", dst)
