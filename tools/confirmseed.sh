#!/bin/bash
# tools/confirmseed.sh <seeded dir> <id>: confirm a seeded change in a fresh scratch worktree:
# (1) demo passes on the unchanged code, (2) patch applies, builds, existing tests pass, (3) demo fails with the patch.
d="$(cd "$1" && pwd)"; id="$2"
. /verif/bin/env.sh
W=/tmp/confirm-$id
git -C /repo worktree remove --force $W >/dev/null 2>&1
git -C /repo worktree add --detach $W HEAD >/dev/null 2>&1 || exit 2
res() { echo "CONFIRM $id: $*"; }
( cd $W && bash "$d/demo.sh" $W >/tmp/confirm-$id.unchanged.log 2>&1 ); r1=$?
res "demo on unchanged code: exit $r1 (expect 0)"
( cd $W && git checkout -q -- . && git clean -fdq ) 
( cd $W && git apply "$d/patch.diff" ) || { res "patch does not apply"; }
( cd $W && go build ./... && go test -vet=off -count=1 ./internal/... ./tests/testutil/... >/tmp/confirm-$id.suite.log 2>&1 ); r2=$?
res "build + existing tests with the change: exit $r2 (expect 0)"
( cd $W && bash "$d/demo.sh" $W >/tmp/confirm-$id.changed.log 2>&1 ); r3=$?
res "demo with the change: exit $r3 (expect non-zero)"
git -C /repo worktree remove --force $W >/dev/null 2>&1
[ $r1 -eq 0 ] && [ $r2 -eq 0 ] && [ $r3 -ne 0 ] && res "CONFIRMED" || res "NOT CONFIRMED"
