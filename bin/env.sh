# sourced by every script: pin the toolchain, stay offline
T=/root/go/pkg/mod/golang.org/toolchain@v0.0.1-go1.25.6.linux-amd64
export PATH=$T/bin:$PATH
export GOTOOLCHAIN=local GOFLAGS=-mod=mod GOPROXY=off GOSUMDB=off
