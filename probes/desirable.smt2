; getMostDesirableNode filter loop: preservation of (a) provenance and (b) the termination measure, float64 lags
(define-sort F () (_ FloatingPoint 11 53))
(declare-fun lag (Int) F)        ; positions[i].lag
(declare-fun mlag (Int) F)       ; moreRecentHosts[k].lag
(declare-fun msrc (Int) Int)     ; ghost: index in positions that moreRecentHosts[k] was copied from
(declare-const n Int) (declare-const i Int) (declare-const nm Int)
(declare-const k0 Int)           ; index of the most-priority node (callee post: result equals positions[k0])
(declare-const maxLag F) (declare-const thr F)
(assert (fp.geq maxLag ((_ to_fp 11 53) RNE 0.0)))
(assert (forall ((j Int)) (not (fp.isNaN (lag j)))))
(assert (and (<= 0 k0) (< k0 n)))
(assert (= thr (fp.sub RNE (lag k0) maxLag)))
(assert (not (fp.leq (lag k0) maxLag)))
(assert (and (<= 0 i) (< i n) (<= 0 nm)))
; invariants
(assert (forall ((k Int)) (=> (and (<= 0 k) (< k nm)) (and (<= 0 (msrc k)) (< (msrc k) i) (= (mlag k) (lag (msrc k))) (fp.lt (mlag k) thr)))))
(assert (<= nm (- i (ite (< k0 i) 1 0))))
; body
(declare-fun mlag2 (Int) F) (declare-fun msrc2 (Int) Int) (declare-const nm2 Int)
(assert (ite (fp.lt (lag i) thr)
  (and (= nm2 (+ nm 1)) (= (mlag2 nm) (lag i)) (= (msrc2 nm) i)
       (forall ((k Int)) (=> (not (= k nm)) (and (= (mlag2 k) (mlag k)) (= (msrc2 k) (msrc k))))))
  (and (= nm2 nm) (forall ((k Int)) (and (= (mlag2 k) (mlag k)) (= (msrc2 k) (msrc k)))))))
(assert (not (and
  (forall ((k Int)) (=> (and (<= 0 k) (< k nm2)) (and (<= 0 (msrc2 k)) (< (msrc2 k) (+ i 1)) (= (mlag2 k) (lag (msrc2 k))) (fp.lt (mlag2 k) thr))))
  (<= nm2 (- (+ i 1) (ite (< k0 (+ i 1)) 1 0))))))
(check-sat)
