; preservation of the loop invariant of findMostRecentNodeAndDetectSplitbrain, abstract GTID sets
(declare-sort G 0)
(declare-fun sup (G G) Bool)      ; sup a b  <=> a.Contain(b)  (a superset-or-equal b)
(declare-fun eq (G G) Bool)       ; a.Equal(b)
; assumed library contract: partial order
(assert (forall ((a G)) (sup a a)))
(assert (forall ((a G) (b G) (c G)) (=> (and (sup a b) (sup b c)) (sup a c))))
(assert (forall ((a G) (b G)) (= (eq a b) (and (sup a b) (sup b a)))))
(declare-fun P (Int) G)           ; positions[i].gtidset
(declare-const n Int)
(declare-const i Int)
(declare-const mx G)              ; maxPos.gtidset
(declare-const mi Int)            ; ghost: index maxPos was copied from
(assert (and (<= 1 i) (< i n)))
; invariant at loop head
(assert (and (<= 0 mi) (< mi i) (= mx (P mi))))
(assert (forall ((k Int)) (=> (and (<= 0 k) (< k i) (forall ((j Int)) (=> (and (<= 0 j) (< j i)) (sup (P k) (P j))))) (sup mx (P k)))))
; body
(declare-const mx2 G)
(declare-const mi2 Int)
(declare-const lagless Bool)
(assert (ite (eq (P i) mx)
             (ite lagless (and (= mx2 (P i)) (= mi2 i)) (and (= mx2 mx) (= mi2 mi)))
             (ite (sup mx (P i)) (and (= mx2 (P i)) (= mi2 i)) (and (= mx2 mx) (= mi2 mi)))))
; negated invariant at i+1
(assert (not (and (<= 0 mi2) (< mi2 (+ i 1)) (= mx2 (P mi2))
  (forall ((k Int)) (=> (and (<= 0 k) (< k (+ i 1)) (forall ((j Int)) (=> (and (<= 0 j) (< j (+ i 1))) (sup (P k) (P j))))) (sup mx2 (P k)))))))
(check-sat)
(get-model)
