; findBestStreamFrom: termination measure card(D) - card(T) >= 0 and strictly decreasing, via trusted finite-set cardinality axioms
(declare-sort Str 0)
(define-sort HSet () (Array Str Bool))
(declare-fun card (HSet) Int)
(assert (forall ((S HSet)) (! (>= (card S) 0) :pattern ((card S)))))
(assert (forall ((S HSet) (k Str)) (! (=> (not (select S k)) (= (card (store S k true)) (+ (card S) 1))) :pattern ((card (store S k true))))))
(declare-fun subset (HSet HSet) Bool)
(assert (forall ((A HSet) (B HSet)) (! (= (subset A B) (forall ((x Str)) (=> (select A x) (select B x)))) :pattern ((subset A B)))))
(assert (forall ((A HSet) (B HSet)) (! (=> (subset A B) (<= (card A) (card B))) :pattern ((subset A B)))))
(declare-const D HSet)           ; dom(cascadeTopology)
(declare-const T HSet)           ; ghost: set of all loopDetector elements except the last
(declare-const S HSet)           ; ghost: set of all loopDetector elements
(declare-const last Str)
(declare-const len Int)
; invariant at loop head
(assert (and (>= len 1) (not (select T last)) (= S (store T last true)) (= (card T) (- len 1)) (subset T D)))
; this iteration continues: last in D (non-empty StreamFrom), streamFrom not in S
(declare-const sf Str)
(assert (select D last))
(assert (not (select S sf)))
; next state
(define-fun T2 () HSet S)
(define-fun S2 () HSet (store S sf true))
(define-fun len2 () Int (+ len 1))
(push)
(echo "invariant preserved")
(assert (not (and (>= len2 1) (not (select T2 sf)) (= S2 (store T2 sf true)) (= (card T2) (- len2 1)) (subset T2 D))))
(check-sat)
(pop)
(push)
(echo "measure bounded below and decreases")
(assert (not (and (>= (- (card D) (card T)) 0) (< (- (card D) (card T2)) (- (card D) (card T))))))
(check-sat)
(pop)
