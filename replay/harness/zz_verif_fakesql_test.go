package app

// Replay harness, part 2 (injected with `go test -overlay -tags verif`, never written into /repo): a scripted
// database/sql driver ("vfmysql") answering the statements of internal/mysql from an in-memory per-host server
// state, so that the REAL mysql.Node / mysql.Cluster / App code runs against fake MySQL servers.
// Needs the add-only hooks of internal/mysql/verif_hooks.go (NewNodeWithDB, VerifRegisterNode, VerifSetLocal).

import (
	"context"
	"database/sql"
	"database/sql/driver"
	"errors"
	"fmt"
	"io"
	"net"
	"regexp"
	"strconv"
	"strings"
	"sync"
	"syscall"
	"testing"
	"time"

	mysqldrv "github.com/go-sql-driver/mysql"
	"github.com/jmoiron/sqlx"

	nodestate "github.com/yandex/mysync/internal/app/node_state"
	"github.com/yandex/mysync/internal/dcs"
	"github.com/yandex/mysync/internal/mysql"
)

type vfBinlog struct {
	Name string
	Size int64
}

// vfServer is the state of one fake MySQL server. Tests set fields directly between calls into the code under
// test; the driver takes mu around every statement (the code under test queries hosts in parallel).
type vfServer struct {
	mu sync.Mutex

	Host    string
	UUID    string
	Version [3]int // default 8.0.32 => the code uses the REPLICA syntax and ReplicaStatusStruct
	Alive   bool   // false => connecting and every statement fail with "connection refused"
	Hang    bool   // true => every statement blocks until the caller's context expires

	ReadOnly, SuperReadOnly, Offline bool

	IsReplica                         bool   // false => SHOW SLAVE/REPLICA STATUS returns zero rows ("is master")
	MasterHost                        string // Source_Host / Master_Host (also stream_from of a cascade node)
	IOThreadRunning, SQLThreadRunning bool
	LastIOErrno, LastSQLErrno         int
	LastIOError, LastError            string
	ExecutedGtidSet, RetrievedGtidSet string
	SecondsBehind                     *float64 // nil = NULL; also reported NULL while a replication thread is stopped
	MasterLogFile                     string
	ReadMasterLogPos                  int64

	SemiSyncMaster, SemiSyncSlave bool
	WaitSlaveCount                int
	WaitingSemiSyncAck            bool

	Binlogs                   []vfBinlog
	InnodbFlushLogAtTrxCommit int // default 1
	SyncBinlog                int // default 1
	Uptime                    int64
	ProcessIDs                []int // answer of the "running user queries" processlist query

	Statements []string         // every mutating statement received (whitespace-normalised, args inlined), in order
	FailOn     map[string]error // substring of the statement text -> error returned instead of executing it
	EmptyOn    map[string]bool  // substring of a reading statement -> answered with an empty result set (zero rows)
	ExtSources []string         // rows of mysql.replication_sources (external replication); empty => table does not exist
	// Hook, if set, runs (with mu held) before every statement is answered: lets a test change the server state between
	// two statements of ONE call into the code under test (e.g. "an operator ran RESET REPLICA ALL in between").
	Hook func(s *vfServer, q string)
}

func vfMaster(host, gtid string) *vfServer {
	return &vfServer{Host: host, Alive: true, ExecutedGtidSet: gtid}
}

func vfReplica(host, master, gtid string) *vfServer {
	zero := 0.0
	return &vfServer{Host: host, Alive: true, ReadOnly: true, SuperReadOnly: true, IsReplica: true, MasterHost: master,
		IOThreadRunning: true, SQLThreadRunning: true, ExecutedGtidSet: gtid, RetrievedGtidSet: gtid, SecondsBehind: &zero,
		MasterLogFile: "mysql-bin.000001", ReadMasterLogPos: 4}
}

// stmts returns the received mutating statements containing sub.
func (s *vfServer) stmts(sub string) []string {
	s.mu.Lock()
	defer s.mu.Unlock()
	var out []string
	for _, q := range s.Statements {
		if strings.Contains(q, sub) {
			out = append(out, q)
		}
	}
	return out
}

// ---------------------------------------------------------------- driver

var vfServers = struct {
	sync.Mutex
	m   map[string]*vfServer
	seq int
}{m: map[string]*vfServer{}}

type vfDriver struct{}

func init() { sql.Register("vfmysql", vfDriver{}) }

func vfRefused(host string) error {
	return &net.OpError{Op: "dial", Net: "tcp", Addr: &net.TCPAddr{IP: net.IPv4(192, 0, 2, 1), Port: 3306},
		Err: fmt.Errorf("vfmysql %s: %w", host, syscall.ECONNREFUSED)}
}

func (vfDriver) Open(dsn string) (driver.Conn, error) {
	vfServers.Lock()
	s := vfServers.m[dsn]
	vfServers.Unlock()
	if s == nil {
		return nil, fmt.Errorf("vfmysql: unknown server %q", dsn)
	}
	s.mu.Lock()
	defer s.mu.Unlock()
	if !s.Alive {
		return nil, vfRefused(s.Host)
	}
	return &vfConn{s}, nil
}

type vfConn struct{ s *vfServer }

func (c *vfConn) Prepare(q string) (driver.Stmt, error) {
	return nil, errors.New("vfmysql: prepared statements are not supported")
}
func (c *vfConn) Close() error { return nil }
func (c *vfConn) Begin() (driver.Tx, error) {
	return nil, errors.New("vfmysql: transactions are not supported")
}
func (c *vfConn) QueryContext(ctx context.Context, q string, args []driver.NamedValue) (driver.Rows, error) {
	return c.s.run(ctx, q, args)
}
func (c *vfConn) ExecContext(ctx context.Context, q string, args []driver.NamedValue) (driver.Result, error) {
	if _, err := c.s.run(ctx, q, args); err != nil {
		return nil, err
	}
	return driver.RowsAffected(0), nil
}

type vfRows struct {
	cols []string
	data [][]driver.Value
	i    int
}

func (r *vfRows) Columns() []string { return r.cols }
func (r *vfRows) Close() error      { return nil }
func (r *vfRows) Next(dest []driver.Value) error {
	if r.i >= len(r.data) {
		return io.EOF
	}
	copy(dest, r.data[r.i])
	r.i++
	return nil
}

// vfOne("col", value, "col2", value2, ...) is a one-row result; vfNone(cols...) is an empty one.
func vfOne(kv ...any) *vfRows {
	r := &vfRows{data: [][]driver.Value{{}}}
	for i := 0; i < len(kv); i += 2 {
		r.cols = append(r.cols, kv[i].(string))
		r.data[0] = append(r.data[0], kv[i+1])
	}
	return r
}
func vfNone(cols ...string) *vfRows { return &vfRows{cols: cols} }
func vfB(b bool) int64 {
	if b {
		return 1
	}
	return 0
}
func vfYes(b bool) string {
	if b {
		return "Yes"
	}
	return "No"
}

var (
	vfSpace    = regexp.MustCompile(`\s+`)
	vfChannel  = regexp.MustCompile(`(?i)FOR CHANNEL '([^']*)'`)
	vfThreads  = regexp.MustCompile(`^(STOP|START) (?:SLAVE|REPLICA)( IO_THREAD| SQL_THREAD)?\b`)
	vfSrcHost  = regexp.MustCompile(`(?:MASTER|SOURCE)_HOST = '([^']*)'`)
	vfMutating = []string{"SET GLOBAL ", "STOP ", "START ", "CHANGE ", "RESET ", "KILL ", "ALTER ", "CREATE ", "INSERT "}
)

// vfInline normalises whitespace and replaces each `?` by its argument (sqlx rewrites :name into ?).
func vfInline(q string, args []driver.NamedValue) string {
	q = strings.TrimSpace(vfSpace.ReplaceAllString(q, " "))
	for _, a := range args {
		v := fmt.Sprint(a.Value)
		if s, ok := a.Value.(string); ok {
			v = "'" + s + "'"
		}
		q = strings.Replace(q, "?", v, 1)
	}
	return q
}

func (s *vfServer) run(ctx context.Context, query string, args []driver.NamedValue) (*vfRows, error) {
	q := vfInline(query, args)
	s.mu.Lock()
	hang := s.Hang
	s.mu.Unlock()
	if hang {
		<-ctx.Done()
	}
	if err := ctx.Err(); err != nil {
		return nil, err
	}
	s.mu.Lock()
	defer s.mu.Unlock()
	if !s.Alive {
		return nil, vfRefused(s.Host)
	}
	if s.Hook != nil {
		s.Hook(s, q)
	}
	mutating := false
	for _, p := range vfMutating {
		if strings.HasPrefix(q, p) {
			mutating = true
			s.Statements = append(s.Statements, q)
		}
	}
	for sub, err := range s.FailOn {
		if strings.Contains(q, sub) {
			return nil, err
		}
	}
	if mutating {
		return vfNone(), s.mutate(q)
	}
	for sub, on := range s.EmptyOn {
		if on && strings.Contains(q, sub) {
			r, err := s.read(q)
			if err != nil {
				return nil, err
			}
			return vfNone(r.cols...), nil
		}
	}
	return s.read(q)
}

func (s *vfServer) read(q string) (*vfRows, error) {
	has := func(sub string) bool { return strings.Contains(q, sub) }
	switch {
	case q == "SELECT 1 AS Ok":
		return vfOne("Ok", int64(1)), nil
	case has("sys.version_major()"):
		return vfOne("MajorVersion", int64(s.Version[0]), "MinorVersion", int64(s.Version[1]), "PatchVersion", int64(s.Version[2])), nil
	case has("@@GLOBAL.gtid_executed"):
		return vfOne("Executed_Gtid_Set", s.ExecutedGtidSet), nil
	case has("@@server_uuid"):
		return vfOne("server_uuid", s.UUID), nil
	case has("@@read_only AS ReadOnly"):
		return vfOne("ReadOnly", vfB(s.ReadOnly), "SuperReadOnly", vfB(s.SuperReadOnly)), nil
	case has("@@GLOBAL.offline_mode"):
		return vfOne("OfflineMode", vfB(s.Offline)), nil
	case has("@@rpl_semi_sync_master_enabled AS"):
		return vfOne("MasterEnabled", vfB(s.SemiSyncMaster), "SlaveEnabled", vfB(s.SemiSyncSlave), "WaitSlaveCount", int64(s.WaitSlaveCount)), nil
	case has("@@GLOBAL.innodb_flush_log_at_trx_commit as"):
		return vfOne("InnodbFlushLogAtTrxCommit", int64(s.InnodbFlushLogAtTrxCommit), "SyncBinlog", int64(s.SyncBinlog)), nil
	case has("AS IsWaiting"):
		return vfOne("IsWaiting", vfB(s.WaitingSemiSyncAck)), nil
	case has("AS LastStartup"):
		return vfOne("LastStartup", float64(time.Now().Unix()-s.Uptime)), nil
	case strings.HasPrefix(q, "SHOW SLAVE STATUS"), strings.HasPrefix(q, "SHOW REPLICA STATUS"):
		return s.replicaStatus(q)
	case q == "SHOW BINARY LOGS":
		r := vfNone("Log_name", "File_size", "Encrypted")
		for _, b := range s.Binlogs {
			r.data = append(r.data, []driver.Value{b.Name, b.Size, "No"})
		}
		return r, nil
	case q == "SHOW SLAVE HOSTS", q == "SHOW REPLICAS":
		return vfNone("Server_Id", "Host"), nil
	case strings.HasPrefix(q, "SELECT ID FROM information_schema.PROCESSLIST"):
		r := vfNone("ID")
		for _, id := range s.ProcessIDs {
			r.data = append(r.data, []driver.Value{int64(id)})
		}
		return r, nil
	case has("FROM information_schema.EVENTS"):
		return vfNone("EVENT_SCHEMA", "EVENT_NAME", "DEFINER"), nil
	case has("FROM mysql.replication_sources") && len(s.ExtSources) > 0:
		r := vfNone("SourceHost", "Priority")
		for i, h := range s.ExtSources {
			r.data = append(r.data, []driver.Value{h, int64(100 - i)})
		}
		return r, nil
	case has("FROM mysql.replication_settings"), has("FROM mysql.replication_sources"):
		return nil, &mysqldrv.MySQLError{Number: 1146, Message: "Table doesn't exist (vfmysql: external replication is not modelled)"}
	case strings.HasPrefix(q, "SET SESSION "):
		return vfNone(), nil
	}
	return nil, fmt.Errorf("vfmysql %s: unsupported statement: %s", s.Host, q)
}

func (s *vfServer) replicaStatus(q string) (*vfRows, error) {
	if m := vfChannel.FindStringSubmatch(q); m != nil && m[1] != "" {
		return nil, &mysqldrv.MySQLError{Number: 3074, Message: "Slave channel '" + m[1] + "' does not exist."}
	}
	cols := []string{"Source_Host", "Source_Port", "Source_Log_File", "Read_Source_Log_Pos", "Replica_IO_Running", "Replica_SQL_Running",
		"Last_Error", "Retrieved_Gtid_Set", "Executed_Gtid_Set", "Last_IO_Errno", "Last_IO_Error", "Last_SQL_Errno", "Seconds_Behind_Source",
		"Channel_Name", "Auto_Position"}
	if strings.HasPrefix(q, "SHOW SLAVE") {
		rep := strings.NewReplacer("Source", "Master", "Replica", "Slave")
		for i := range cols {
			cols[i] = rep.Replace(cols[i])
		}
	}
	if !s.IsReplica {
		return vfNone(cols...), nil
	}
	var lag driver.Value
	if s.SecondsBehind != nil && s.IOThreadRunning && s.SQLThreadRunning {
		lag = *s.SecondsBehind
	}
	return &vfRows{cols: cols, data: [][]driver.Value{{s.MasterHost, int64(3306), s.MasterLogFile, s.ReadMasterLogPos,
		vfYes(s.IOThreadRunning), vfYes(s.SQLThreadRunning), s.LastError, s.RetrievedGtidSet, s.ExecutedGtidSet,
		int64(s.LastIOErrno), s.LastIOError, int64(s.LastSQLErrno), lag, "", int64(1)}}}, nil
}

func (s *vfServer) mutate(q string) error {
	channel := ""
	if m := vfChannel.FindStringSubmatch(q); m != nil {
		channel = m[1]
	}
	replStmt := strings.HasPrefix(q, "STOP ") || strings.HasPrefix(q, "START ") || strings.HasPrefix(q, "RESET ")
	if replStmt && channel != "" {
		return &mysqldrv.MySQLError{Number: 3074, Message: "Slave channel '" + channel + "' does not exist."}
	}
	switch {
	case strings.HasPrefix(q, "SET GLOBAL "):
		for _, asg := range strings.Split(strings.TrimPrefix(q, "SET GLOBAL "), ",") {
			name, val, ok := strings.Cut(asg, "=")
			if !ok {
				return fmt.Errorf("vfmysql %s: cannot parse %q", s.Host, q)
			}
			if err := s.setGlobal(strings.TrimSpace(name), strings.Trim(strings.TrimSpace(val), "'")); err != nil {
				return err
			}
		}
	case vfThreads.MatchString(q):
		m := vfThreads.FindStringSubmatch(q)
		on := m[1] == "START"
		if on && !s.IsReplica {
			return &mysqldrv.MySQLError{Number: 1200, Message: "The server is not configured as slave; fix in config file or with CHANGE MASTER TO"}
		}
		if m[2] != " SQL_THREAD" {
			s.IOThreadRunning = on
			if on {
				s.LastIOErrno, s.LastIOError = 0, ""
			}
		}
		if m[2] != " IO_THREAD" {
			s.SQLThreadRunning = on
			if on {
				s.LastSQLErrno, s.LastError = 0, ""
			}
		}
	case strings.HasPrefix(q, "CHANGE MASTER TO"), strings.HasPrefix(q, "CHANGE REPLICATION SOURCE TO"):
		if channel != "" {
			return nil // other channels (external replication) are logged only
		}
		if s.IsReplica && (s.IOThreadRunning || s.SQLThreadRunning) {
			return &mysqldrv.MySQLError{Number: 3021, Message: "This operation cannot be performed with a running slave io thread; run STOP SLAVE IO_THREAD FOR CHANNEL '' first."}
		}
		if m := vfSrcHost.FindStringSubmatch(q); m != nil {
			s.MasterHost = m[1]
		}
		s.IsReplica, s.IOThreadRunning, s.SQLThreadRunning = true, false, false
	case strings.HasPrefix(q, "RESET SLAVE ALL"), strings.HasPrefix(q, "RESET REPLICA ALL"):
		if s.IsReplica && (s.IOThreadRunning || s.SQLThreadRunning) {
			return &mysqldrv.MySQLError{Number: 3081, Message: "This operation cannot be performed with running replication threads; run STOP SLAVE FOR CHANNEL '' first"}
		}
		s.IsReplica, s.MasterHost, s.RetrievedGtidSet = false, "", ""
		s.LastIOErrno, s.LastSQLErrno, s.LastIOError, s.LastError = 0, 0, "", ""
	}
	// KILL, CHANGE REPLICATION FILTER, ALTER EVENT, CREATE TABLE, INSERT: logged only
	return nil
}

func (s *vfServer) setGlobal(name, val string) error {
	on := val == "1" || strings.EqualFold(val, "ON")
	n, _ := strconv.Atoi(val)
	switch name {
	case "super_read_only":
		s.SuperReadOnly = on
		if on {
			s.ReadOnly = true
		}
	case "read_only":
		s.ReadOnly = on
		if !on {
			s.SuperReadOnly = false
		}
	case "offline_mode":
		s.Offline = on
	case "rpl_semi_sync_master_enabled":
		s.SemiSyncMaster = on
	case "rpl_semi_sync_slave_enabled":
		s.SemiSyncSlave = on
	case "rpl_semi_sync_master_wait_for_slave_count":
		s.WaitSlaveCount = n
	case "innodb_flush_log_at_trx_commit":
		s.InnodbFlushLogAtTrxCommit = n
	case "sync_binlog":
		s.SyncBinlog = n
	default:
		return &mysqldrv.MySQLError{Number: 1193, Message: "Unknown system variable '" + name + "'"}
	}
	return nil
}

// ---------------------------------------------------------------- wiring into App / Cluster / fake DCS

// vfCompleteApp fills the App fields that vfNewApp leaves nil but NewApp / stateFirstRun set in production
// (externalReplication, optSyncer, optController). Needed by any test that reaches the end of a healthy
// stateManager iteration (optSyncer.Sync) or runs performSwitchover (optController, externalReplication).
func vfCompleteApp(t *testing.T, app *App) *App {
	t.Helper()
	er, err := mysql.NewExternalReplication(app.config.ExternalReplicationType, app.logger, app.config.ExternalReplicationChannel)
	if err != nil {
		t.Fatal(err)
	}
	app.externalReplication = er
	app.initializeOptimizationModule()
	return app
}

// vfNode opens a handle to srv through the registered driver and wraps it into a real mysql.Node
// (t may be nil: then nothing is cleaned up at the end of the test).
func vfNode(t *testing.T, app *App, srv *vfServer) *mysql.Node {
	vfServers.Lock()
	vfServers.seq++
	dsn := fmt.Sprintf("%s#%d", srv.Host, vfServers.seq)
	vfServers.m[dsn] = srv
	seq := vfServers.seq
	vfServers.Unlock()
	if srv.Version == [3]int{} {
		srv.Version = [3]int{8, 0, 32}
	}
	if srv.UUID == "" {
		srv.UUID = fmt.Sprintf("00000000-0000-0000-0000-%012d", seq)
	}
	if srv.InnodbFlushLogAtTrxCommit == 0 && srv.SyncBinlog == 0 {
		srv.InnodbFlushLogAtTrxCommit, srv.SyncBinlog = 1, 1
	}
	if srv.Uptime == 0 {
		srv.Uptime = 86400
	}
	if srv.WaitSlaveCount == 0 {
		srv.WaitSlaveCount = 1
	}
	db, err := sql.Open("vfmysql", dsn)
	if err != nil {
		panic(err)
	}
	if t != nil {
		t.Cleanup(func() {
			_ = db.Close()
			vfServers.Lock()
			delete(vfServers.m, dsn)
			vfServers.Unlock()
		})
	}
	return mysql.NewNodeWithDB(app.config, app.logger, srv.Host, sqlx.NewDb(db, "mysql"))
}

// vfAddNode registers srv.Host in the fake coordination service (HA node, or cascade node streaming from
// srv.MasterHost) and a node backed by srv in app.cluster, so that app.cluster.UpdateHostsInfo() keeps it.
func vfAddNode(t *testing.T, app *App, d *vfDCS, srv *vfServer, cascade bool) *mysql.Node {
	t.Helper()
	node := vfNode(t, app, srv)
	if cascade {
		d.put(dcs.JoinPath(dcs.PathCascadeNodesPrefix, srv.Host), mysql.CascadeNodeConfiguration{StreamFrom: srv.MasterHost})
	} else {
		d.put(dcs.JoinPath(dcs.PathHANodesPrefix, srv.Host), mysql.NodeConfiguration{})
	}
	app.cluster.VerifRegisterNode(node, cascade)
	return node
}

// vfSetLocal makes srv the server mysync runs next to: config.Hostname and cluster.Local() (the node object
// already registered for that host is reused, as Cluster.updateHAHostsInfo would do).
func vfSetLocal(app *App, srv *vfServer) *mysql.Node {
	app.config.Hostname = srv.Host
	node := app.cluster.Get(srv.Host)
	if node == nil {
		node = vfNode(nil, app, srv)
	}
	app.cluster.VerifSetLocal(node)
	return node
}

// vfHealth writes the per-host health record (what the host's own mysync publishes) where
// getClusterStateFromDcs / GetHealthState read it.
func vfHealth(d *vfDCS, host string, state *nodestate.NodeState) {
	d.put(dcs.JoinPath(pathHealthPrefix, host), state)
}

// vfHealthFromDB publishes, for every registered host, the state the manager currently observes over SQL
// (emulates one round of all health checkers).
func vfHealthFromDB(app *App, d *vfDCS) map[string]*nodestate.NodeState {
	cs := app.getClusterStateFromDB()
	for host, st := range cs {
		vfHealth(d, host, st)
	}
	return cs
}
