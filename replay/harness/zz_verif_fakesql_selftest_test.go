package app

import (
	"errors"
	"strings"
	"testing"

	"github.com/yandex/mysync/internal/mysql"
)

const vfGtid = "6dbb5a3c-8f8e-11ee-9b6a-0242ac120002:1-100"

// Sanity of the fake SQL driver: the real getClusterStateFromDB / Node code sees a master and a running replica,
// mutating statements reach the fake and change its state, dead servers and injected faults surface as errors.
func TestVerifHarness_FakeSQL(t *testing.T) {
	d := newVfDCS()
	cfg := vfConfig(t)
	app := vfNewApp(t, cfg, d)
	m1 := vfMaster("m1", vfGtid)
	r1 := vfReplica("r1", "m1", vfGtid)
	vfAddNode(t, app, d, m1, false)
	vfAddNode(t, app, d, r1, false)
	vfSetLocal(app, r1)

	if err := app.cluster.UpdateHostsInfo(); err != nil {
		t.Fatal(err)
	}
	if hosts := app.cluster.HANodeHosts(); strings.Join(hosts, ",") != "m1,r1" {
		t.Fatalf("UpdateHostsInfo did not keep the injected nodes: %v", hosts)
	}
	if app.cluster.Local() != app.cluster.Get("r1") {
		t.Fatalf("local node is not the registered r1 node")
	}

	cs := app.getClusterStateFromDB()
	ms, rs := cs["m1"], cs["r1"]
	if ms == nil || rs == nil {
		t.Fatalf("missing hosts in cluster state: %v", cs)
	}
	if !ms.PingOk || !ms.IsMaster || ms.MasterState == nil || ms.MasterState.ExecutedGtidSet != vfGtid || ms.IsReadOnly || ms.Error != "" {
		t.Fatalf("m1 is not seen as a healthy writable master: %+v", ms)
	}
	if !rs.PingOk || rs.IsMaster || rs.SlaveState == nil || rs.Error != "" {
		t.Fatalf("r1 is not seen as a replica: %+v", rs)
	}
	ss := rs.SlaveState
	if ss.MasterHost != "m1" || ss.ReplicationState != mysql.ReplicationRunning || ss.ExecutedGtidSet != vfGtid ||
		ss.RetrievedGtidSet != vfGtid || ss.ReplicationLag == nil || *ss.ReplicationLag != 0 || !rs.IsReadOnly || !rs.IsSuperReadOnly {
		t.Fatalf("r1 replica state is wrong: %+v (node %+v)", ss, rs)
	}
	if rs.SemiSyncState == nil || rs.ReplicationSettings == nil || rs.ReplicationSettings.SyncBinlog != 1 {
		t.Fatalf("r1 semisync / replication settings missing: %+v", rs)
	}

	// mutating statements are recorded and change the fake's state
	r1.ReadOnly, r1.SuperReadOnly = false, false
	if err := app.cluster.Get("r1").SetReadOnly(true); err != nil {
		t.Fatalf("SetReadOnly: %v", err)
	}
	if got := r1.stmts("super_read_only"); len(got) != 1 || got[0] != "SET GLOBAL super_read_only = 1" || !r1.ReadOnly || !r1.SuperReadOnly {
		t.Fatalf("SET GLOBAL super_read_only not recorded/applied: %v ro=%v sro=%v", r1.Statements, r1.ReadOnly, r1.SuperReadOnly)
	}
	n := app.cluster.Get("r1")
	if err := n.SetSemiSyncWaitSlaveCount(2); err != nil || r1.WaitSlaveCount != 2 {
		t.Fatalf("wait slave count: err=%v count=%d stmts=%v", err, r1.WaitSlaveCount, r1.Statements)
	}
	if err := n.StopSlaveIOThread(); err != nil || r1.IOThreadRunning {
		t.Fatalf("stop io thread: %v", err)
	}
	if st, err := n.GetReplicaStatus(); err != nil || st == nil || st.ReplicationState() != mysql.ReplicationStopped || st.GetReplicationLag().Valid {
		t.Fatalf("status after stopping io thread: %+v err=%v", st, err)
	}
	if err := n.StopSlave(); err != nil {
		t.Fatal(err)
	}
	if err := n.ChangeMaster("m2"); err != nil || r1.MasterHost != "m2" || !r1.IsReplica {
		t.Fatalf("change master: err=%v state=%+v stmts=%v", err, r1.MasterHost, r1.Statements)
	}
	if err := n.ResetSlaveAll(); err != nil || r1.IsReplica {
		t.Fatalf("reset replica all: %v", err)
	}
	if st, err := n.GetReplicaStatus(); err != nil || st != nil {
		t.Fatalf("a non-replica must yield (nil, nil) replica status, got %v, %v", st, err)
	}

	// fault injection and dead servers
	boom := errors.New("boom")
	m1.FailOn = map[string]error{"offline_mode = ON": boom}
	if err := app.cluster.Get("m1").SetOffline(); !errors.Is(err, boom) || m1.Offline {
		t.Fatalf("FailOn not honoured: err=%v offline=%v", err, m1.Offline)
	}
	m1.Alive = false
	if ok, err := app.cluster.Get("m1").Ping(); ok || err == nil {
		t.Fatalf("dead server answered ping: ok=%v err=%v", ok, err)
	}
	if st := app.getClusterStateFromDB()["m1"]; st.PingOk || st.Error == "" {
		t.Fatalf("dead server seen alive: %+v", st)
	}
}
