package app

// Replay harness (injected with `go test -overlay`, never written into /repo): an in-memory dcs.DCS so that the
// REAL appDCS / App code runs against a fake coordination service.

import (
	"encoding/json"
	"errors"
	"sort"
	"strings"
	"sync"
	"testing"
	"time"

	"github.com/yandex/mysync/internal/config"
	"github.com/yandex/mysync/internal/dcs"
	"github.com/yandex/mysync/internal/log"
	"github.com/yandex/mysync/internal/mysql"
)

type vfOp struct {
	Op   string
	Path string
}

type vfDCS struct {
	mu        sync.Mutex
	data      map[string][]byte
	connected bool
	lockOK    bool
	ops       []vfOp
	failGet   map[string]error // path -> error injected on Get
	failSet   map[string]error
}

func newVfDCS() *vfDCS {
	return &vfDCS{data: map[string][]byte{}, connected: true, lockOK: true, failGet: map[string]error{}, failSet: map[string]error{}}
}

func vfNorm(p string) string {
	parts := []string{}
	for _, s := range strings.Split(p, "/") {
		if s != "" {
			parts = append(parts, s)
		}
	}
	return strings.Join(parts, "/")
}

func (d *vfDCS) log(op, path string) { d.ops = append(d.ops, vfOp{op, vfNorm(path)}) }

func (d *vfDCS) IsConnected() bool                           { return d.connected }
func (d *vfDCS) WaitConnected(timeout time.Duration) bool    { return d.connected }
func (d *vfDCS) Initialize()                                 {}
func (d *vfDCS) SetDisconnectCallback(callback func() error) {}
func (d *vfDCS) AcquireLock(path string) bool                { d.log("lock", path); return d.lockOK }
func (d *vfDCS) ReleaseLock(path string)                     { d.log("unlock", path) }
func (d *vfDCS) Close()                                      {}

func (d *vfDCS) Create(path string, value any) error {
	d.mu.Lock()
	defer d.mu.Unlock()
	d.log("create", path)
	p := vfNorm(path)
	if _, ok := d.data[p]; ok {
		return dcs.ErrExists
	}
	b, err := json.Marshal(value)
	if err != nil {
		return err
	}
	d.data[p] = b
	return nil
}
func (d *vfDCS) CreateEphemeral(path string, value any) error { return d.Create(path, value) }
func (d *vfDCS) Set(path string, value any) error {
	d.mu.Lock()
	defer d.mu.Unlock()
	d.log("set", path)
	p := vfNorm(path)
	if e, ok := d.failSet[p]; ok {
		return e
	}
	b, err := json.Marshal(value)
	if err != nil {
		return err
	}
	d.data[p] = b
	return nil
}
func (d *vfDCS) SetEphemeral(path string, value any) error { return d.Set(path, value) }
func (d *vfDCS) Get(path string, dest any) error {
	d.mu.Lock()
	defer d.mu.Unlock()
	p := vfNorm(path)
	if e, ok := d.failGet[p]; ok {
		return e
	}
	b, ok := d.data[p]
	if !ok {
		return dcs.ErrNotFound
	}
	if err := json.Unmarshal(b, dest); err != nil {
		return dcs.ErrMalformed
	}
	return nil
}
func (d *vfDCS) Delete(path string) error {
	d.mu.Lock()
	defer d.mu.Unlock()
	d.log("delete", path)
	p := vfNorm(path)
	for k := range d.data {
		if k == p || strings.HasPrefix(k, p+"/") {
			delete(d.data, k)
		}
	}
	return nil
}
func (d *vfDCS) GetTree(path string) (any, error) { return nil, errors.New("not supported in harness") }
func (d *vfDCS) GetChildren(path string) ([]string, error) {
	d.mu.Lock()
	defer d.mu.Unlock()
	p := vfNorm(path)
	set := map[string]bool{}
	found := false
	if _, ok := d.data[p]; ok {
		found = true
	}
	for k := range d.data {
		if strings.HasPrefix(k, p+"/") {
			found = true
			rest := strings.TrimPrefix(k, p+"/")
			set[strings.Split(rest, "/")[0]] = true
		}
	}
	if !found {
		return nil, dcs.ErrNotFound
	}
	var out []string
	for k := range set {
		out = append(out, k)
	}
	sort.Strings(out)
	return out, nil
}

func (d *vfDCS) put(path string, v any) {
	b, _ := json.Marshal(v)
	d.data[vfNorm(path)] = b
}
func (d *vfDCS) has(path string) bool { _, ok := d.data[vfNorm(path)]; return ok }
func (d *vfDCS) count(op, path string) int {
	n := 0
	for _, o := range d.ops {
		if o.Op == op && o.Path == vfNorm(path) {
			n++
		}
	}
	return n
}

// vfNewApp: a real *App (real appDCS, real Cluster) over the fake coordination service.
func vfNewApp(t *testing.T, cfg *config.Config, d *vfDCS) *App {
	t.Helper()
	logger, _, _, err := log.Open("/dev/null", "fatal", 100, 0)
	if err != nil {
		t.Fatal(err)
	}
	cluster, err := mysql.NewCluster(cfg, logger, d)
	if err != nil {
		t.Fatal(err)
	}
	return &App{
		config:             cfg,
		logger:             logger,
		t:                  NewTimings(),
		dcs:                d,
		appDCS:             NewAppDCS(d, cfg, logger),
		cluster:            cluster,
		switchHelper:       mysql.NewSwitchHelper(cfg),
		replRepairState:    map[string]*ReplicationRepairState{},
		slaveReadPositions: map[string]string{},
		offlineModeFilter:  NewOfflineModeFilter(cfg, logger),
	}
}

func vfConfig(t *testing.T) *config.Config {
	cfg, err := config.DefaultConfig()
	if err != nil {
		t.Fatal(err)
	}
	cfg.Hostname = "local.test"
	return &cfg
}
