//go:build verif

package mysql

// Replay hooks (build tag `verif` only, add-only): let an in-package test of another package build a Cluster whose
// nodes talk to an injected *sqlx.DB (a scripted database/sql driver) instead of dialing MySQL.
// Nothing here is compiled into a normal build and no existing declaration is changed.

import (
	"github.com/jmoiron/sqlx"

	"github.com/yandex/mysync/internal/config"
	"github.com/yandex/mysync/internal/log"
)

// NewNodeWithDB is NewNode with the connection handle pre-set: GetDB never dials (the lazy-init flag is already 1).
func NewNodeWithDB(config *config.Config, logger *log.Logger, host string, db *sqlx.DB) *Node {
	n := &Node{
		config: config,
		logger: logger,
		db:     db.Unsafe(), // same as GetDB: tolerate result columns that have no struct field
		host:   host,
	}
	n.done.Store(1)
	return n
}

// VerifRegisterNode puts node into the HA (cascade=false) or cascade (cascade=true) node map under its host name.
// UpdateHostsInfo keeps it as long as the host stays registered in the coordination service.
func (c *Cluster) VerifRegisterNode(node *Node, cascade bool) {
	c.Lock()
	defer c.Unlock()
	if cascade {
		c.cascadeNodes[node.host] = node
	} else {
		c.haNodes[node.host] = node
	}
}

// VerifSetLocal makes node the local node of the cluster (what Cluster.Local returns).
func (c *Cluster) VerifSetLocal(node *Node) {
	c.Lock()
	defer c.Unlock()
	c.local = node
}
