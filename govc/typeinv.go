package main

// Type invariants for the C20 sweep (see TypeInv in spec.go).
//
//   typeinv *app.App appInv init app.NewApp, (*app.App).connectDCS, (*app.App).newDBCluster
//
// * assumed (sweep only) at function entry for the receiver, every parameter and every captured variable of the type:
//   v != nil ==> appInv(v); a receiver of the type is additionally assumed non-nil, and every static call of a method
//   with such a receiver carries the obligation "receiver != nil";
// * the fields the macro reads through its parameter are checked to be written only by the listed initialisers
//   (static obligation per field), so a fact established by them cannot be invalidated later;
// * establishment is a postcondition of the initialisers (ordinary ensures clauses using the macro).

import (
	"fmt"
	"go/types"
	"sort"
	"strings"

	"golang.org/x/tools/go/ssa"
)

func (e *Engine) typeInvFor(t types.Type) *TypeInv {
	for _, ti := range e.db.TypeInvs {
		tt := e.lookupTypeByName(ti.Type)
		if tt != nil && types.Identical(tt, t) {
			return ti
		}
	}
	return nil
}

func (e *Engine) typeInvTerm(f *Frame, env *SpecEnv, ti *TypeInv, v *Term, typ types.Type) (*Term, error) {
	n := *env
	n.names = map[string]SV{}
	for k, x := range env.names {
		n.names[k] = x
	}
	n.names["ti$self"] = SV{t: v, typ: typ}
	ex := &Expr{Kind: "call", Name: ti.Macro, Args: []*Expr{{Kind: "ident", Name: "ti$self"}}}
	return n.formula(ex)
}

// assumeTypeInvs adds the entry assumptions of the sweep.
func (e *Engine) assumeTypeInvs(f *Frame, st *State) {
	if len(e.db.TypeInvs) == 0 {
		return
	}
	env := f.requiresEnv(st)
	add := func(v *Term, typ types.Type, what string, recv bool) {
		ti := e.typeInvFor(typ)
		if ti == nil {
			return
		}
		t, err := e.typeInvTerm(f, env, ti, v, typ)
		if err != nil {
			e.specErrors = append(e.specErrors, fmt.Sprintf("typeinv %s at %s of %s: %v", ti.Macro, what, f.name, err))
			return
		}
		if recv {
			f.addHyp(tTrue(), tNot(tEq(v, tInt(0))))
			f.addHyp(tTrue(), t)
		} else {
			f.addHyp(tTrue(), tImp(tNot(tEq(v, tInt(0))), t))
		}
		f.notes[fmt.Sprintf("type invariant %s(%s) assumed at entry for values of type %s (established by %s; fields checked immutable elsewhere)", ti.Macro, "x", ti.Type, strings.Join(ti.Init, ", "))] = true
	}
	fn := f.fn
	for i, p := range fn.Params {
		if t, ok := f.args[i].(*Term); ok {
			add(t, p.Type(), p.Name(), i == 0 && fn.Signature.Recv() != nil)
		}
	}
	for _, fv := range fn.FreeVars {
		r, ok := f.vals[fv].(*Term)
		if !ok {
			continue
		}
		et := derefType(fv.Type())
		if et == nil {
			continue
		}
		if e.typeInvFor(et) == nil {
			continue
		}
		v := st.load(refAddr(r, et))
		// a captured variable named like the enclosing method's receiver holds that receiver (non-nil, see above)
		isRecv := false
		for p := fn.Parent(); p != nil; p = p.Parent() {
			if rc := p.Signature.Recv(); rc != nil && rc.Name() == fv.Name() && types.Identical(rc.Type(), et) {
				isRecv = true
			}
		}
		add(v, et, fv.Name(), isRecv)
	}
}

// recvNonNil: sweep obligation at a static method call whose receiver type has a type invariant.
func (f *Frame) recvNonNil(ins ssa.Instruction, ct *callTarget, st *State) {
	if !f.root.safety || ct.fn == nil || ct.fn.Signature.Recv() == nil || len(ct.args) == 0 {
		return
	}
	rt := ct.fn.Signature.Recv().Type()
	if f.eng.typeInvFor(rt) == nil {
		return
	}
	r, ok := ct.args[0].(*Term)
	if !ok {
		return
	}
	f.safe(st, "nil", tNot(tEq(r, tInt(0))), ins.Pos(), "receiver of "+ct.display)
}

// macroFields: names of the fields read directly through the macro's parameter.
func macroFields(m *MacroDef) []string {
	if m == nil || len(m.Params) != 1 {
		return nil
	}
	p := m.Params[0].Name
	seen := map[string]bool{}
	var walk func(x *Expr)
	walk = func(x *Expr) {
		if x == nil {
			return
		}
		if x.Kind == "field" && len(x.Args) == 1 && x.Args[0].Kind == "ident" && x.Args[0].Name == p {
			seen[x.Name] = true
		}
		for _, a := range x.Args {
			walk(a)
		}
		for _, g := range x.Pats {
			for _, a := range g {
				walk(a)
			}
		}
	}
	walk(m.Body)
	var out []string
	for k := range seen {
		out = append(out, k)
	}
	sort.Strings(out)
	return out
}

// typeInvObligations: one static obligation per field read by a type invariant - the field is written only by the
// declared initialisers and its address does not escape.
func (e *Engine) typeInvObligations() []*Obligation {
	var out []*Obligation
	for _, ti := range e.db.TypeInvs {
		tt := e.lookupTypeByName(ti.Type)
		m := e.db.Macros[ti.Macro]
		if tt == nil || m == nil {
			e.specErrors = append(e.specErrors, fmt.Sprintf("typeinv %s %s: unknown type or macro", ti.Type, ti.Macro))
			continue
		}
		pt, ok := tt.Underlying().(*types.Pointer)
		if !ok {
			e.specErrors = append(e.specErrors, fmt.Sprintf("typeinv %s: pointer type expected", ti.Type))
			continue
		}
		stt, ok := pt.Elem().Underlying().(*types.Struct)
		if !ok {
			e.specErrors = append(e.specErrors, fmt.Sprintf("typeinv %s: pointer to struct expected", ti.Type))
			continue
		}
		allowed := map[string]bool{}
		for _, n := range ti.Init {
			allowed[n] = true
			if e.fnByName[n] == nil {
				e.specErrors = append(e.specErrors, fmt.Sprintf("typeinv %s: initialiser %s not found", ti.Type, n))
			}
		}
		for _, fld := range macroFields(m) {
			idx := -1
			for i := 0; i < stt.NumFields(); i++ {
				if stt.Field(i).Name() == fld {
					idx = i
				}
			}
			if idx < 0 {
				e.specErrors = append(e.specErrors, fmt.Sprintf("typeinv %s: no field %s", ti.Type, fld))
				continue
			}
			var bad []string
			for name, fn := range e.fnByName {
				if fn == nil || len(fn.Blocks) == 0 {
					continue
				}
				root := fn
				for root.Parent() != nil {
					root = root.Parent()
				}
				if allowed[name] || allowed[shortName(root)] {
					continue
				}
				for _, b := range fn.Blocks {
					for _, ins := range b.Instrs {
						fa, ok := ins.(*ssa.FieldAddr)
						if !ok || fa.Field != idx {
							continue
						}
						if !types.Identical(fa.X.Type(), tt) {
							continue
						}
						for _, ref := range *fa.Referrers() {
							switch r := ref.(type) {
							case *ssa.UnOp: // load
							case *ssa.DebugRef:
							case *ssa.Store:
								if r.Addr == fa {
									bad = append(bad, fmt.Sprintf("%s writes it at %s", name, e.prog.Fset.Position(r.Pos())))
								} else {
									bad = append(bad, fmt.Sprintf("%s stores its address at %s", name, e.prog.Fset.Position(r.Pos())))
								}
							case *ssa.FieldAddr, *ssa.IndexAddr:
								// address of a sub-component: the field itself (a struct/array value) is not a pointer-like
								// value an invariant can constrain; allow
							default:
								if isPointerLike(stt.Field(idx).Type()) {
									bad = append(bad, fmt.Sprintf("%s lets its address escape at %s", name, e.prog.Fset.Position(ref.Pos())))
								}
							}
						}
					}
				}
			}
			sort.Strings(bad)
			o := &Obligation{ID: fmt.Sprintf("typeinv:%s#immutable:%s", ti.Macro, fld), Fn: "typeinv:" + ti.Macro, Kind: "typeinv", Label: "immutable:" + fld,
				Props: []string{"C20"}, Text: fmt.Sprintf("field %s of %s is written only by %s", fld, ti.Type, strings.Join(ti.Init, ", ")), Goal: tTrue(), PC: tTrue()}
			if len(bad) == 0 {
				o.Static = "ok"
			} else {
				o.Static = "fail: " + strings.Join(bad, "; ")
			}
			out = append(out, o)
		}
	}
	return out
}
