package main

// Go types -> SMT sorts, zero values, range facts.

import (
	"fmt"
	"go/types"
	"strings"
)

const modPrefix = "github.com/yandex/mysync/internal/"

// short type name used in sort / heap names
func typeKey(t types.Type) string {
	s := types.TypeString(t, func(p *types.Package) string {
		return strings.TrimPrefix(p.Path(), modPrefix)
	})
	return sanitize(s)
}

// Named types mapped to their own uninterpreted / special sorts.
func specialSort(t types.Type) *Sort {
	n, ok := t.(*types.Named)
	if !ok {
		if a, ok := t.(*types.Alias); ok {
			return specialSort(types.Unalias(a))
		}
		return nil
	}
	obj := n.Obj()
	if obj.Pkg() == nil {
		return nil
	}
	full := obj.Pkg().Path() + "." + obj.Name()
	switch full {
	case "time.Time":
		return sortInt // nanoseconds on an abstract monotone axis; zero value 0 == IsZero
	case "github.com/google/uuid.UUID":
		return usort("GUUID")
	case "sync.Mutex", "sync.RWMutex", "sync.Once", "sync.WaitGroup", "sync.Map":
		return usort("GOpaque")
	}
	return nil
}

func isTimeType(t types.Type) bool {
	n, ok := types.Unalias(t).(*types.Named)
	return ok && n.Obj().Pkg() != nil && n.Obj().Pkg().Path() == "time" && n.Obj().Name() == "Time"
}

var floatReal = true

func sortOf(t types.Type) *Sort {
	if s := specialSort(t); s != nil {
		return s
	}
	switch u := t.Underlying().(type) {
	case *types.Basic:
		switch {
		case u.Info()&types.IsBoolean != 0:
			return sortBool
		case u.Info()&types.IsInteger != 0:
			return sortInt
		case u.Info()&types.IsFloat != 0:
			return sortReal
		case u.Info()&types.IsString != 0:
			return sortStr
		case u.Kind() == types.UnsafePointer:
			return sortInt
		case u.Kind() == types.UntypedNil:
			return sortInt
		}
		return sortInt
	case *types.Pointer, *types.Map, *types.Chan, *types.Signature, *types.Interface:
		return sortInt
	case *types.Slice:
		return sliceSort(u.Elem())
	case *types.Array:
		return arraySort(sortInt, sortOf(u.Elem()))
	case *types.Struct:
		return structSort(t, u)
	case *types.Tuple:
		panic("sortOf tuple")
	}
	panic(fmt.Sprintf("sortOf: unsupported %T %s", t, t))
}

func sliceSort(elem types.Type) *Sort {
	es := sortOf(elem)
	name := "Sl_" + sanitize(es.Name)
	return dataSort(name, func(s *Sort) {
		s.Fields = []DField{{name + "_arr", arraySort(sortInt, es)}, {name + "_len", sortInt}, {name + "_nn", sortBool}}
	})
}

func structSort(t types.Type, u *types.Struct) *Sort {
	name := "St_" + typeKey(t)
	if _, isNamed := types.Unalias(t).(*types.Named); !isNamed {
		name = fmt.Sprintf("St_anon%x", hashString(u.String()))
	}
	return dataSort(name, func(s *Sort) {
		for i := 0; i < u.NumFields(); i++ {
			f := u.Field(i)
			s.Fields = append(s.Fields, DField{name + "_" + sanitize(f.Name()), sortOf(f.Type())})
		}
	})
}

func hashString(s string) uint32 {
	var h uint32 = 2166136261
	for i := 0; i < len(s); i++ {
		h ^= uint32(s[i])
		h *= 16777619
	}
	return h
}

func mapObjSort(m *types.Map) *Sort {
	ks, vs := sortOf(m.Key()), sortOf(m.Elem())
	name := "Mp_" + sanitize(ks.Name) + "_" + sanitize(vs.Name)
	return dataSort(name, func(s *Sort) {
		s.Fields = []DField{{name + "_dom", arraySort(ks, sortBool)}, {name + "_val", arraySort(ks, vs)}}
	})
}

func zeroOfSort(s *Sort) *Term {
	switch s.Kind {
	case "int":
		return tInt(0)
	case "bool":
		return tFalse()
	case "real":
		return tReal("0.0")
	case "usort":
		if s == sortStr {
			return tStrLit("")
		}
		return sym("zero_"+s.Name, s)
	case "array":
		return tConstArr(s, zeroOfSort(s.Elem))
	case "data":
		args := make([]*Term, len(s.Fields))
		for i, f := range s.Fields {
			args[i] = zeroOfSort(f.Sort)
		}
		return tCtor(s, args...)
	}
	panic("zeroOfSort " + s.Name)
}

func zeroOf(t types.Type) *Term { return zeroOfSort(sortOf(t)) }

// slice helpers
func slArr(s *Term) *Term { return tField(s, 0) }
func slLen(s *Term) *Term { return tField(s, 1) }
func slNN(s *Term) *Term  { return tField(s, 2) }
func mkSlice(s *Sort, arr, ln, nn *Term) *Term {
	return tCtor(s, arr, ln, nn)
}

// integer range of a basic integer type (min,max as decimal strings); ok=false for non-integers
func intRange(t types.Type) (string, string, bool) {
	b, ok := t.Underlying().(*types.Basic)
	if !ok || b.Info()&types.IsInteger == 0 {
		return "", "", false
	}
	switch b.Kind() {
	case types.Int, types.Int64, types.UntypedInt:
		return "-9223372036854775808", "9223372036854775807", true
	case types.Int32, types.UntypedRune:
		return "-2147483648", "2147483647", true
	case types.Int16:
		return "-32768", "32767", true
	case types.Int8:
		return "-128", "127", true
	case types.Uint, types.Uint64, types.Uintptr:
		return "0", "18446744073709551615", true
	case types.Uint32:
		return "0", "4294967295", true
	case types.Uint16:
		return "0", "65535", true
	case types.Uint8:
		return "0", "255", true
	}
	return "", "", false
}

// typeFact: what is known about a value of Go type t merely from its type (shallow).
func typeFact(v *Term, t types.Type) *Term {
	if isTimeType(t) {
		return tGe(v, tInt(0))
	}
	if specialSort(t) != nil {
		return tTrue()
	}
	switch u := t.Underlying().(type) {
	case *types.Basic:
		if lo, hi, ok := intRange(t); ok {
			return tAnd(tLe(tIntStr(lo), v), tLe(v, tIntStr(hi)))
		}
	case *types.Pointer, *types.Map, *types.Interface, *types.Signature, *types.Chan:
		return tGe(v, tInt(0))
	case *types.Slice:
		return tAnd(tGe(slLen(v), tInt(0)), tLe(slLen(v), tIntStr("4611686018427387904")), tImp(tNot(slNN(v)), tEq(slLen(v), tInt(0))))
	case *types.Struct:
		var fs []*Term
		for i := 0; i < u.NumFields(); i++ {
			fs = append(fs, typeFact(tField(v, i), u.Field(i).Type()))
		}
		return tAnd(fs...)
	}
	return tTrue()
}

// element type facts for slices are added lazily at Index/IndexAddr loads (see exec).

func isPointerLike(t types.Type) bool {
	switch t.Underlying().(type) {
	case *types.Pointer, *types.Map, *types.Chan, *types.Signature:
		return true
	}
	return false
}

func isInterface(t types.Type) bool {
	_, ok := t.Underlying().(*types.Interface)
	return ok
}

func derefType(t types.Type) types.Type {
	if p, ok := t.Underlying().(*types.Pointer); ok {
		return p.Elem()
	}
	return nil
}
