package main

import (
	"bytes"
	"context"
	"fmt"
	"os"
	"os/exec"
	"path/filepath"
	"strings"
	"sync"
	"time"
)

type solverSpec struct {
	name string
	args func(file string, timeoutS int) []string
}

var solvers = []solverSpec{
	{"z3-new", func(f string, t int) []string { return []string{"z3-new", fmt.Sprintf("-T:%d", t), f} }},
	{"z3", func(f string, t int) []string { return []string{"z3", fmt.Sprintf("-T:%d", t), f} }},
	{"cvc5", func(f string, t int) []string {
		return []string{"cvc5", fmt.Sprintf("--tlimit=%d", t*1000), "--produce-models", f}
	}},
}

type solveResult struct {
	solver  string
	verdict string // unsat sat unknown error
	out     string
	secs    float64
}

func runSolver(ctx context.Context, s solverSpec, file string, timeoutS int) solveResult {
	start := time.Now()
	argv := s.args(file, timeoutS)
	cctx, cancel := context.WithTimeout(ctx, time.Duration(timeoutS+2)*time.Second)
	defer cancel()
	cmd := exec.CommandContext(cctx, argv[0], argv[1:]...)
	var out bytes.Buffer
	cmd.Stdout = &out
	cmd.Stderr = &out
	_ = cmd.Run()
	secs := time.Since(start).Seconds()
	text := out.String()
	verdict := "unknown"
	for _, l := range strings.Split(text, "\n") {
		l = strings.TrimSpace(l)
		if l == "" {
			continue
		}
		switch {
		case l == "unsat":
			verdict = "unsat"
		case l == "sat":
			verdict = "sat"
		case l == "unknown" || l == "timeout":
			verdict = "unknown"
		case strings.HasPrefix(l, "(error"):
			verdict = "error"
		default:
			continue
		}
		break
	}
	if ctx.Err() != nil && verdict == "unknown" {
		verdict = "cancelled"
	}
	return solveResult{s.name, verdict, text, secs}
}

// solveObligation races the portfolio; first definitive (sat/unsat) answer wins.
func solveObligation(o *Obligation, dir string, timeoutS int, all bool) {
	if o.Static != "" {
		if o.Static == "ok" {
			o.Status = "discharged"
			o.Solver = "static"
		} else {
			o.Status = "refuted"
			o.Solver = "static"
			o.Output = o.Static
		}
		return
	}
	if o.Status == "error" {
		return
	}
	if o.Kind == "consistency" {
		// short budget: these are guards, not proofs; only a definite "unsat after, sat before" fails
		ctx := context.Background()
		r := runSolver(ctx, solvers[0], o.Query, 2)
		o.Solver, o.Seconds = r.solver, r.secs
		o.Status = "discharged"
		if r.verdict == "unsat" {
			b := runSolver(ctx, solvers[0], o.Before, 5)
			if b.verdict == "sat" {
				o.Status = "refuted"
				o.Output = "vacuous: applying this assumed contract makes the path contradictory (satisfiable before, unsatisfiable after)"
			}
		}
		return
	}
	file := o.Query
	var results []solveResult
	var winner *solveResult
	race := func(file string, tag string, onlyUnsat bool) {
		ctx, cancel := context.WithCancel(context.Background())
		defer cancel()
		ch := make(chan solveResult, len(solvers))
		for _, s := range solvers {
			go func(s solverSpec) { ch <- runSolver(ctx, s, file, timeoutS) }(s)
		}
		for range solvers {
			r := <-ch
			r.solver += tag
			results = append(results, r)
			ok := r.verdict == "unsat" || (r.verdict == "sat" && !onlyUnsat)
			if ok && winner == nil {
				rr := r
				winner = &rr
				if !all {
					cancel()
				}
			}
		}
	}
	// 1. cone-of-influence slice: only an unsat answer is conclusive there (fewer hypotheses)
	if o.Sliced != "" && !o.Cover {
		race(o.Sliced, "/sliced", true)
	}
	// 2. the full query
	if winner == nil {
		race(file, "", false)
	}
	// 3. undecided: one patient retry (3x the time limit) of the slice, then of the full query, before giving up -
	// an obligation that only just misses the limit under load must not become an alarm
	if winner == nil && !o.Cover && !o.NoRetry && os.Getenv("GOVC_FAST") == "" {
		save := timeoutS
		timeoutS *= 3
		if o.Sliced != "" {
			race(o.Sliced, "/sliced/retry", true)
		}
		if winner == nil {
			race(file, "/retry", false)
		}
		timeoutS = save
	}
	if all {
		seen := map[string]bool{}
		for _, r := range results {
			// "sat" on the slice (fewer hypotheses) says nothing about the full query
			if r.verdict == "sat" && strings.Contains(r.solver, "/sliced") {
				continue
			}
			if r.verdict == "sat" || r.verdict == "unsat" {
				seen[r.verdict] = true
			}
		}
		if seen["sat"] && seen["unsat"] {
			o.Status = "error"
			o.Output = "solver disagreement (sat vs unsat)"
			return
		}
	}
	var sb strings.Builder
	for _, r := range results {
		fmt.Fprintf(&sb, "[%s %.2fs %s] ", r.solver, r.secs, r.verdict)
	}
	o.Output = sb.String()
	if winner == nil && !o.Cover && o.Relaxed != "" {
		// second chance on the quantifier-free relaxation
		r := runSolver(context.Background(), solvers[0], o.Relaxed, timeoutS/2+1)
		fmt.Fprintf(&sb, "[relaxed %s %.2fs %s] ", r.solver, r.secs, r.verdict)
		o.Output = sb.String()
		if r.verdict == "unsat" {
			o.Status = "discharged"
			o.Solver = r.solver + "(relaxed)"
			o.Seconds = r.secs
			return
		}
		if r.verdict == "sat" {
			o.Status = "unknown"
			o.Model = r.out
			o.Output += "\ncandidate counterexample from the quantifier-free relaxation (may be spurious)"
			return
		}
	}
	if winner == nil {
		o.Status = "unknown"
		for _, r := range results {
			if r.verdict == "error" {
				o.Output += "\n" + firstLines(r.out, 2)
				break
			}
		}
		if o.Cover {
			o.Status = "discharged" // cover: not provably unreachable
			o.Solver = "none(unknown)"
		}
		return
	}
	o.Solver = winner.solver
	o.Seconds = winner.secs
	if o.Cover {
		if winner.verdict == "sat" {
			o.Status = "discharged"
		} else {
			o.Status = "refuted"
			o.Output += "\nvacuous: hypotheses are contradictory or no return is reachable"
		}
		return
	}
	if winner.verdict == "unsat" {
		o.Status = "discharged"
	} else {
		o.Status = "refuted"
		o.Model = winner.out
	}
}

func firstLines(s string, n int) string {
	ls := strings.Split(s, "\n")
	if len(ls) > n {
		ls = ls[:n]
	}
	return strings.Join(ls, "\n")
}

func sanitizeFile(s string) string {
	var sb strings.Builder
	for _, r := range s {
		switch {
		case r >= 'a' && r <= 'z', r >= 'A' && r <= 'Z', r >= '0' && r <= '9', r == '_', r == '.', r == '-':
			sb.WriteRune(r)
		default:
			sb.WriteRune('_')
		}
	}
	out := sb.String()
	if len(out) > 150 {
		out = out[:110] + fmt.Sprintf("_%x", hashString(out))
	}
	return out
}

// prepare renders the SMT query (sequential: the term table is not thread-safe).
func prepare(o *Obligation, dir string) {
	if o.Static != "" {
		return
	}
	hyps := o.ctx.hyps[:o.nHyps]
	if o.Kind == "consistency" {
		q, _ := emitQuery(hyps, o.Goal, false)
		o.Query = filepath.Join(dir, sanitizeFile(o.ID)+".smt2")
		os.WriteFile(o.Query, []byte("; consistency after "+o.ID+"\n"+q), 0o644)
		qb, _ := emitQuery(o.ctx.hyps[:o.nBefore], o.Goal, false)
		o.Before = filepath.Join(dir, sanitizeFile(o.ID)+".before.smt2")
		os.WriteFile(o.Before, []byte("; consistency before "+o.ID+"\n"+qb), 0o644)
		return
	}
	q, _ := emitQuery(hyps, o.Goal, true)
	file := filepath.Join(dir, sanitizeFile(o.ID)+".smt2")
	if len(q) > 8<<20 {
		o.Status = "error"
		o.Output = fmt.Sprintf("query too large (%d bytes): tool limit", len(q))
		return
	}
	os.WriteFile(file, []byte("; obligation "+o.ID+"\n; "+strings.ReplaceAll(o.Text, "\n", " ")+"\n"+q), 0o644)
	o.Query = file
	// sliced variant (cone of influence of the goal)
	sl := sliceHyps(hyps, o.Goal)
	if len(sl) < len(hyps) {
		q1, _ := emitQuery(sl, o.Goal, true)
		o.Sliced = filepath.Join(dir, sanitizeFile(o.ID)+".sliced.smt2")
		os.WriteFile(o.Sliced, []byte(fmt.Sprintf("; SLICED (%d of %d hypotheses) %s\n", len(sl), len(hyps), o.ID)+q1), 0o644)
	}
	// replay variant (watch constants for inputs and predicted outputs), for postconditions of simple functions
	if pl := planReplay(o); pl != nil {
		pl.file = filepath.Join(dir, sanitizeFile(o.ID)+".replay")
		os.WriteFile(pl.file+".bounded.smt2", []byte(emitReplayQuery(hyps, o.Goal, pl, true)), 0o644)
		os.WriteFile(pl.file+".smt2", []byte(emitReplayQuery(hyps, o.Goal, pl, false)), 0o644)
		o.replay = pl
	}
	// relaxed variant (no quantified hypotheses): used only when the full query is undecided
	q2, _ := emitQueryOpt(hyps, o.Goal, true, true)
	o.Relaxed = filepath.Join(dir, sanitizeFile(o.ID)+".relaxed.smt2")
	os.WriteFile(o.Relaxed, []byte("; RELAXED (quantified hypotheses dropped) "+o.ID+"\n"+q2), 0o644)
}

func solveAll(obls []*Obligation, dir string, timeoutS int, all bool, par int) {
	os.MkdirAll(dir, 0o755)
	for _, o := range obls {
		prepare(o, dir)
	}
	var wg sync.WaitGroup
	sem := make(chan struct{}, par)
	for _, o := range obls {
		wg.Add(1)
		sem <- struct{}{}
		go func(o *Obligation) {
			defer wg.Done()
			defer func() { <-sem }()
			// support obligations (callee clauses of other properties) are raced; agreement of all solvers is asked of
			// the property's own obligations
			solveObligation(o, dir, timeoutS, all && !o.Support)
		}(o)
	}
	wg.Wait()
}
