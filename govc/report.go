package main

import (
	"regexp"
	"encoding/json"
	"fmt"
	"os"
	"path/filepath"
	"sort"
	"strings"
)

type oblEvidence struct {
	ID      string   `json:"id"`
	Kind    string   `json:"kind"`
	Func    string   `json:"func"`
	Pos     string   `json:"pos,omitempty"`
	Clause  string   `json:"clause,omitempty"`
	Status  string   `json:"status"`
	Solver  string   `json:"solver,omitempty"`
	Seconds float64  `json:"solver_s"`
	Props   []string `json:"props,omitempty"`
}

func report(o opts, e *Engine, prop, tier string, seed int, sel []*Obligation, frames []*Frame, engineErrs []string, wall float64, timeout int) int {
	known := loadKnown(o.verif)
	knownByObl := map[string]KnownFinding{}
	for _, k := range known {
		if k.Property == prop && k.Status == "known" {
			knownByObl[k.Obligation] = k
		}
	}
	sort.Slice(sel, func(i, j int) bool { return sel[i].ID < sel[j].ID })
	var evs []oblEvidence
	discharged := 0
	violations := 0
	solverTime := 0.0
	bySolver := map[string]int{}
	replayDir := filepath.Join(o.out, "replays", prop)
	os.MkdirAll(replayDir, 0o755)
	var lines []string
	for _, ob := range sel {
		ev := oblEvidence{ID: ob.ID, Kind: ob.Kind, Func: ob.Fn, Pos: ob.Pos, Clause: ob.Text, Status: ob.Status, Solver: ob.Solver, Seconds: round3(ob.Seconds), Props: ob.Props}
		solverTime += ob.Seconds
		if ob.Status == "discharged" {
			discharged++
			bySolver[ob.Solver]++
		} else {
			base := stripOrdinal(ob.ID)
			if k, ok := knownByObl[ob.ID]; ok {
				lines = append(lines, fmt.Sprintf("KNOWN-FINDING: property=%s %s [%s]", prop, k.What, ob.ID))
				ev.Status = "known-finding(" + ob.Status + ")"
			} else if k, ok := knownByObl[base]; ok {
				lines = append(lines, fmt.Sprintf("KNOWN-FINDING: property=%s %s [%s]", prop, k.What, ob.ID))
				ev.Status = "known-finding(" + ob.Status + ")"
			} else if k, ok := knownCrash(knownByObl, ob.ID); ok {
				lines = append(lines, fmt.Sprintf("KNOWN-FINDING: property=%s %s [%s]", prop, k.What, ob.ID))
				ev.Status = "known-finding(" + ob.Status + ")"
			} else {
				violations++
				rp := filepath.Join(replayDir, sanitizeFile(ob.ID)+".json")
				confirmed, detail := tryReplay(o, e, ob, rp)
				suffix := ""
				if !confirmed {
					suffix = " no-failing-input-found"
				}
				writeReplay(rp, prop, ob, confirmed, detail)
				lines = append(lines, fmt.Sprintf("VIOLATION property=%s replay=%s obligation=%s status=%s%s", prop, rp, ob.ID, ob.Status, suffix))
			}
		}
		evs = append(evs, ev)
	}
	for i, m := range engineErrs {
		violations++
		rp := filepath.Join(replayDir, fmt.Sprintf("engine_%d.json", i))
		data, _ := json.MarshalIndent(map[string]interface{}{"property": prop, "obligation": "engine", "detail": m,
			"note": "contract target missing/stale or generator failure: fails closed"}, "", " ")
		os.WriteFile(rp, data, 0o644)
		lines = append(lines, fmt.Sprintf("VIOLATION property=%s replay=%s obligation=engine:%s no-failing-input-found", prop, rp, oneLine(m)))
	}
	// expected obligation count guard (vacuity)
	exp := loadExpected(o.verif)
	if n, ok := exp[prop]; ok && len(sel) < n {
		violations++
		rp := filepath.Join(replayDir, "obligation_count.json")
		data, _ := json.MarshalIndent(map[string]interface{}{"property": prop, "obligation": "count", "expected_at_least": n, "generated": len(sel)}, "", " ")
		os.WriteFile(rp, data, 0o644)
		lines = append(lines, fmt.Sprintf("VIOLATION property=%s replay=%s obligation=count generated=%d expected>=%d no-failing-input-found", prop, rp, len(sel), n))
	}
	if len(sel) == 0 {
		violations++
		lines = append(lines, fmt.Sprintf("VIOLATION property=%s replay=%s obligation=none-generated no-failing-input-found", prop, filepath.Join(replayDir, "none.json")))
		os.WriteFile(filepath.Join(replayDir, "none.json"), []byte(`{"detail":"no obligations generated"}`), 0o644)
	}
	// functions, notes, assumptions
	var fns []string
	notes := map[string]bool{}
	for _, f := range frames {
		used := false
		for _, ob := range sel {
			if ob.ctx == f {
				used = true
				break
			}
		}
		if !used {
			continue
		}
		fns = append(fns, f.name)
		for n := range f.notes {
			notes[n] = true
		}
	}
	sort.Strings(fns)
	var assumptions []string
	var trusted []string
	for n := range notes {
		if strings.HasPrefix(n, "assumed contract: ") {
			trusted = append(trusted, n)
		} else {
			assumptions = append(assumptions, n)
		}
	}
	sort.Strings(assumptions)
	sort.Strings(trusted)
	trusted = append([]string{"go/packages + go/ssa (x/tools v0.50.0, naive form) as the reading of /repo's working tree",
		"govc SSA->SMT semantics (this generator)", "z3 4.8.12 / z3 5.1.0 / cvc5 1.0.3",
		"sequential execution of each function (no interference from other goroutines/processes between its calls)",
		"float64 treated as mathematical reals (no NaN/inf/rounding)",
		"package-level error sentinels non-nil and pairwise distinct"}, trusted...)
	for _, ax := range axioms {
		if strings.HasPrefix(ax.Name, "spec:") {
			trusted = append(trusted, "assumed axiom: "+ax.Name[5:])
		}
	}
	// samples: a few obligations with the head of their SMT goal
	var samples []interface{}
	for i, ob := range sel {
		if i >= 4 {
			break
		}
		s := map[string]interface{}{"obligation": ob.ID, "clause": ob.Text, "status": ob.Status}
		if ob.Query != "" {
			if data, err := os.ReadFile(ob.Query); err == nil {
				txt := string(data)
				if j := strings.Index(txt, "; negated goal"); j >= 0 {
					g := txt[j:]
					if len(g) > 600 {
						g = g[:600] + " ..."
					}
					s["smt_negated_goal"] = g
				}
			}
		}
		samples = append(samples, s)
	}
	nKnown := 0
	for _, ev := range evs {
		if strings.HasPrefix(ev.Status, "known-finding") {
			nKnown++
		}
	}
	cov := map[string]interface{}{
		"obligations":              len(sel) - nKnown,
		"known_finding_obligations": nKnown,
		"obligations_generated":    len(sel),
		"discharged":               discharged,
		"checker_cmd":              fmt.Sprintf("bin/check %s %s   (govc: WP over go/ssa of /repo's working tree; per-obligation portfolio z3-new|z3|cvc5, timeout %ds)", prop, tier, timeout),
		"trusted_base":             trusted,
		"samples":                  samples,
		"functions_under_contract": fns,
		"discharged_by_backend":    bySolver,
		"solver_seconds_total":     round3(solverTime),
		"load_seconds":             round3(e.loadSeconds),
		"obligation_list":          evs,
		"contract_files":           e.db.Files,
		"exhaustive":               false,
	}
	evd := map[string]interface{}{
		"property_id": prop, "tier": tier, "seed": seed, "level": "proof",
		"coverage": cov, "assumptions": assumptions, "wall_s": round3(wall), "violations": violations,
	}
	os.MkdirAll(filepath.Join(o.out, "evidence"), 0o755)
	data, _ := json.MarshalIndent(evd, "", " ")
	os.WriteFile(filepath.Join(o.out, "evidence", prop+".json"), data, 0o644)
	seenLine := map[string]bool{}
	for _, l := range lines {
		key := l
		if strings.HasPrefix(l, "KNOWN-FINDING:") {
			if i := strings.LastIndex(l, " ["); i > 0 {
				key = l[:i] // one line per listed finding, not per failing call boundary
			}
		}
		if seenLine[key] {
			continue
		}
		seenLine[key] = true
		fmt.Println(l)
	}
	fmt.Printf("%s %s: %d obligations, %d discharged, %d violations, %.1fs (solver %.1fs)\n", prop, tier, len(sel), discharged, violations, wall, solverTime)
	if violations > 0 {
		return 1
	}
	return 0
}

func oneLine(s string) string {
	s = strings.ReplaceAll(s, "\n", " ")
	if len(s) > 200 {
		s = s[:200]
	}
	return strings.ReplaceAll(s, " ", "_")
}

var ordinalRe = regexp.MustCompile(`(@return[0-9]+)?(~[0-9]+)?$`)

// stripOrdinal removes the position-dependent suffixes of an obligation id (return ordinal, duplicate counter),
// leaving <func>#<kind>:<label> - the key used in known_findings.json.
func stripOrdinal(id string) string {
	return ordinalRe.ReplaceAllString(id, "")
}

func round3(x float64) float64 { return float64(int(x*1000+0.5)) / 1000 }

func loadExpected(verif string) map[string]int {
	out := map[string]int{}
	data, err := os.ReadFile(filepath.Join(verif, "selftest", "expected_counts.json"))
	if err != nil {
		return out
	}
	json.Unmarshal(data, &out)
	return out
}

func writeReplay(path, prop string, ob *Obligation, confirmed bool, detail map[string]interface{}) {
	m := map[string]interface{}{
		"property": prop, "obligation": ob.ID, "kind": ob.Kind, "function": ob.Fn, "pos": ob.Pos, "clause": ob.Text,
		"status": ob.Status, "solver": ob.Solver, "solver_output": ob.Output, "query": ob.Query,
		"confirmed_on_real_code": confirmed,
	}
	if ob.Model != "" {
		mm := ob.Model
		if len(mm) > 20000 {
			mm = mm[:20000] + "..."
		}
		m["model"] = mm
	}
	for k, v := range detail {
		m[k] = v
	}
	data, _ := json.MarshalIndent(m, "", " ")
	os.WriteFile(path, data, 0o644)
}

// knownCrash: a crash-invariant finding covers every call boundary at which that invariant fails.
func knownCrash(known map[string]KnownFinding, id string) (KnownFinding, bool) {
	if i := strings.Index(id, "#crash:"); i >= 0 {
		if j := strings.Index(id[i:], "@"); j >= 0 {
			k, ok := known[id[:i+j]]
			return k, ok
		}
	}
	return KnownFinding{}, false
}
