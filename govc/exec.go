package main

// Forward symbolic execution of go/ssa (naive form) with loop cutting; generates obligations.

import (
	"os"
	"fmt"
	"go/constant"
	"go/token"
	"go/types"
	"sort"
	"strings"

	"golang.org/x/tools/go/ssa"
)

type Obligation struct {
	ID     string
	Fn     string
	Kind   string
	Label  string
	Props  []string
	Tags   []string
	Goal   *Term
	PC     *Term
	ctx    *Frame
	nHyps  int
	Pos    string
	Text   string
	Cover  bool // expect sat (reachability)
	Static string // non-empty: decided statically ("ok"/"fail: ...")
	// results
	Status  string // discharged refuted unknown error
	Solver  string
	Seconds float64
	Model   string
	Query   string
	Relaxed string
	Sliced  string
	NoRetry bool // listed known finding: expected to stay undischarged
	Support bool // obligation of a callee's clause tagged for other properties, included because a selected proof relies on it
	Output  string
	replay  *replayPlan
	// consistency obligation (kind "consistency"): the hypotheses after applying an assumed contract must not be
	// contradictory unless they already were before (nBefore = number of hypotheses before the application)
	nBefore int
	Before  string // query file of the "before" state
}

// Frame: one function activation under symbolic execution (top-level or inlined).
type Frame struct {
	eng      *Engine
	fn       *ssa.Function
	name     string
	contract *Contract
	parent   *Frame
	depth    int
	vals     map[ssa.Value]Value
	origin   map[ssa.Value]*Addr // slice values loaded from a location
	cells    map[*ssa.Alloc]*Cell
	cellList []*Cell
	escapes  map[*ssa.Alloc]bool
	root     *Frame // top-level frame: owns hyps and obligations
	hyps     []*Term
	obls     []*Obligation
	entry    *State
	args     []Value
	argTerms map[string]*Term // param name -> entry value
	paramTyp map[string]types.Type
	loops    []*Loop
	loopOf   map[*ssa.BasicBlock]*Loop
	order    []*ssa.BasicBlock
	outEdges map[*ssa.BasicBlock][]outEdge
	blockIn  map[*ssa.BasicBlock]*State
	returns  []retInfo
	exitResults Value // merged results at the function exit (for replay)
	callSeq  map[string]int
	siteOrd  map[ssa.Instruction]map[string]int
	deferred []*ssa.Defer
	deferOn  map[*ssa.Defer]*Cell
	notes    map[string]bool // abstractions used
	iters    map[*ssa.Range]*RangeIter
	rangeOrd map[*ssa.Alloc]int
	visitedN map[int]*Cell
	props    []string
	safety   bool
	oblSeen  map[string]int
	used     map[string]bool // contracts applied at call sites of this (root) frame: the callees its proof relies on
	countDefs map[string]bool
	nilMapDone map[int]bool
	sitePC    map[ssa.Instruction]*Term
	initMode  bool // executing a package initialiser: calls to other initialisers are skipped
}

type outEdge struct {
	to   *ssa.BasicBlock
	cond *Term
	st   *State
}

type retInfo struct {
	st      *State
	results []Value
}

type Loop struct {
	ord    int
	header *ssa.BasicBlock
	body   map[*ssa.BasicBlock]bool
	backs  []*ssa.BasicBlock
	// snapshot at header for decreases
	decAtHead *Term
	headState *State
	invAssumed bool
	visited    *Cell
	preState   *State // state on first arrival at the header (before havoc): loopentry(e)
}

func (f *Frame) note(s string) { f.root.notes[f.name+": "+s] = true }

func (f *Frame) addHyp(pc *Term, fact *Term) {
	if fact.open || pc.open {
		return // side facts about terms under a binder cannot be asserted globally
	}
	h := tImp(pc, fact)
	if h.Op == "true" {
		return
	}
	f.root.hyps = append(f.root.hyps, h)
}

func (f *Frame) oblige(st *State, kind, label string, props, tags []string, goal *Term, pos token.Pos, text string) *Obligation {
	if st.dead {
		return nil
	}
	g := tImp(st.pc, goal)
	id := f.name + "#" + kind + ":" + label
	r := f.root
	r.oblSeen[id]++
	if n := r.oblSeen[id]; n > 1 {
		id = fmt.Sprintf("%s~%d", id, n)
	}
	o := &Obligation{ID: id, Fn: f.name, Kind: kind, Label: label, Props: props, Tags: tags, Goal: g, PC: st.pc, ctx: r, nHyps: len(r.hyps), Text: text}
	if pos.IsValid() {
		p := f.eng.prog.Fset.Position(pos)
		o.Pos = fmt.Sprintf("%s:%d", strings.TrimPrefix(p.Filename, "/repo/"), p.Line)
	}
	if g.Op == "true" {
		o.Static = "ok"
	}
	r.obls = append(r.obls, o)
	return o
}

// safety obligation; afterwards the condition is assumed (execution would have panicked otherwise)
func (f *Frame) safe(st *State, what string, cond *Term, pos token.Pos, text string) {
	if cond.Op == "true" {
		return
	}
	if f.root.safety {
		f.oblige(st, "safety", what+":"+text, []string{"C20"}, nil, cond, pos, text)
	}
	f.addHyp(st.pc, cond)
}

// ---------------------------------------------------------------------------------------------

func (e *Engine) newFrame(fn *ssa.Function, parent *Frame) *Frame {
	f := &Frame{eng: e, fn: fn, name: shortName(fn), parent: parent,
		vals: map[ssa.Value]Value{}, origin: map[ssa.Value]*Addr{}, cells: map[*ssa.Alloc]*Cell{},
		outEdges: map[*ssa.BasicBlock][]outEdge{}, blockIn: map[*ssa.BasicBlock]*State{},
		callSeq: map[string]int{}, deferOn: map[*ssa.Defer]*Cell{}, iters: map[*ssa.Range]*RangeIter{},
		argTerms: map[string]*Term{}, paramTyp: map[string]types.Type{}, visitedN: map[int]*Cell{}, rangeOrd: map[*ssa.Alloc]int{}}
	if parent == nil {
		f.root = f
		f.notes = map[string]bool{}
		f.oblSeen = map[string]int{}
	} else {
		f.root = parent.root
		f.depth = parent.depth + 1
	}
	f.contract = e.db.Contracts[f.name]
	f.escapes = escapeAnalysis(fn)
	f.findLoops()
	return f
}

var cellSeq int

func (f *Frame) newCell(name string, typ types.Type, a *ssa.Alloc) *Cell {
	cellSeq++
	c := &Cell{id: cellSeq, name: name, typ: typ, sort: sortOf(typ), alloc: a}
	f.cellList = append(f.cellList, c)
	return c
}

// escapeAnalysis: an Alloc escapes unless all of its uses are loads, stores to it, and
// field/index address computations that themselves do not escape.
func escapeAnalysis(fn *ssa.Function) map[*ssa.Alloc]bool {
	esc := map[*ssa.Alloc]bool{}
	var addrEscapes func(v ssa.Value, depth int) bool
	addrEscapes = func(v ssa.Value, depth int) bool {
		refs := v.Referrers()
		if refs == nil {
			return true
		}
		for _, r := range *refs {
			switch r := r.(type) {
			case *ssa.Store:
				if r.Val == v {
					return true
				}
			case *ssa.UnOp:
				if r.Op != token.MUL {
					return true
				}
			case *ssa.FieldAddr:
				if addrEscapes(r, depth+1) {
					return true
				}
			case *ssa.IndexAddr:
				if r.X != v || addrEscapes(r, depth+1) {
					return true
				}
			case *ssa.Slice:
				// slicing a local array: snapshot read
				if r.X != v {
					return true
				}
				if _, ok := derefType(v.Type()).Underlying().(*types.Array); !ok {
					return true
				}
			case *ssa.DebugRef:
			default:
				return true
			}
		}
		return false
	}
	for _, b := range fn.Blocks {
		for _, ins := range b.Instrs {
			if a, ok := ins.(*ssa.Alloc); ok {
				if addrEscapes(a, 0) {
					esc[a] = true
				}
			}
		}
	}
	return esc
}

func (f *Frame) findLoops() {
	fn := f.fn
	if len(fn.Blocks) == 0 {
		return
	}
	f.loopOf = map[*ssa.BasicBlock]*Loop{}
	byHeader := map[*ssa.BasicBlock]*Loop{}
	for _, b := range fn.Blocks {
		for _, s := range b.Succs {
			if s.Dominates(b) {
				l := byHeader[s]
				if l == nil {
					l = &Loop{header: s, body: map[*ssa.BasicBlock]bool{s: true}}
					byHeader[s] = l
				}
				l.backs = append(l.backs, b)
				// natural loop body
				stack := []*ssa.BasicBlock{b}
				for len(stack) > 0 {
					x := stack[len(stack)-1]
					stack = stack[:len(stack)-1]
					if l.body[x] {
						continue
					}
					l.body[x] = true
					for _, p := range x.Preds {
						stack = append(stack, p)
					}
				}
			}
		}
	}
	var hs []*ssa.BasicBlock
	for h := range byHeader {
		hs = append(hs, h)
	}
	sort.Slice(hs, func(i, j int) bool { return hs[i].Index < hs[j].Index })
	for i, h := range hs {
		l := byHeader[h]
		l.ord = i + 1
		f.loops = append(f.loops, l)
		f.loopOf[h] = l
	}
	// topological order ignoring back edges
	indeg := map[*ssa.BasicBlock]int{}
	for _, b := range fn.Blocks {
		for _, s := range b.Succs {
			if !s.Dominates(b) {
				indeg[s]++
			}
		}
	}
	var ready []*ssa.BasicBlock
	ready = append(ready, fn.Blocks[0])
	seen := map[*ssa.BasicBlock]bool{}
	for len(ready) > 0 {
		sort.Slice(ready, func(i, j int) bool { return ready[i].Index < ready[j].Index })
		b := ready[0]
		ready = ready[1:]
		if seen[b] {
			continue
		}
		seen[b] = true
		f.order = append(f.order, b)
		for _, s := range b.Succs {
			if s.Dominates(b) {
				continue
			}
			indeg[s]--
			if indeg[s] == 0 {
				ready = append(ready, s)
			}
		}
	}
	if os.Getenv("GOVC_DEBUG") != "" && len(f.order) != len(fn.Blocks) {
		fmt.Fprintf(os.Stderr, "DEBUG %s: %d of %d blocks ordered\n", f.name, len(f.order), len(fn.Blocks))
		for _, b := range fn.Blocks {
			if !seen[b] {
				fmt.Fprintf(os.Stderr, "  unordered block %d (%s) indeg=%d preds=%v\n", b.Index, b.Comment, indeg[b], b.Preds)
			}
		}
	}
	// rangeindex ordinals
	n := 0
	for _, b := range fn.Blocks {
		for _, ins := range b.Instrs {
			if a, ok := ins.(*ssa.Alloc); ok && a.Comment == "rangeindex" {
				n++
				f.rangeOrd[a] = n
			}
		}
	}
}

// ---------------------------------------------------------------------------------------------
// values

func (f *Frame) get(v ssa.Value) Value {
	switch v := v.(type) {
	case *ssa.Const:
		return f.constVal(v)
	case *ssa.Function:
		return &FuncRef{v}
	case *ssa.Global:
		key := "G$" + strings.TrimPrefix(v.Pkg.Pkg.Path(), modPrefix) + "." + v.Name()
		et := derefType(v.Type())
		globalSorts[key] = sortOf(et).Name
		f.eng.noteGlobal(key, et)
		return &Addr{global: key, base: et, typ: et}
	case *ssa.Builtin:
		return v
	}
	if x, ok := f.vals[v]; ok {
		return x
	}
	// value from an unexecuted block (dead) or unsupported: havoc
	t := f.havocOfType(v.Type(), "undef_"+v.Name())
	f.vals[v] = t
	return t
}

func (f *Frame) constVal(c *ssa.Const) Value {
	t := c.Type()
	if c.Value == nil {
		if _, ok := t.Underlying().(*types.Tuple); ok {
			return &Tuple{}
		}
		return zeroOf(t)
	}
	switch c.Value.Kind() {
	case constant.Bool:
		return tBool(constant.BoolVal(c.Value))
	case constant.String:
		return tStrLit(constant.StringVal(c.Value))
	case constant.Int:
		if b, ok := t.Underlying().(*types.Basic); ok && b.Info()&types.IsFloat != 0 {
			return tReal(c.Value.ExactString() + ".0")
		}
		return tIntStr(c.Value.ExactString())
	case constant.Float:
		if b, ok := t.Underlying().(*types.Basic); ok && b.Info()&types.IsInteger != 0 {
			i, _ := constant.Int64Val(constant.ToInt(c.Value))
			return tInt(i)
		}
		return realLit(c.Value)
	}
	return f.havocOfType(t, "const")
}

func realLit(v constant.Value) *Term {
	num := constant.Num(v)
	den := constant.Denom(v)
	ns, ds := num.ExactString(), den.ExactString()
	neg := strings.HasPrefix(ns, "-")
	if neg {
		ns = ns[1:]
	}
	var s string
	if ds == "1" {
		s = ns + ".0"
	} else {
		s = "(/ " + ns + ".0 " + ds + ".0)"
	}
	if neg {
		return mk("#r-"+s, sortReal)
	}
	return tReal(s)
}

func (f *Frame) term(v ssa.Value, st *State) *Term {
	return f.asTerm(f.get(v), v.Type(), st)
}

// asTerm materialises Go-side values (addresses, closures) as SMT terms.
func (f *Frame) asTerm(x Value, typ types.Type, st *State) *Term {
	switch x := x.(type) {
	case *Term:
		return x
	case *Addr:
		if x.ref != nil && len(x.path) == 0 {
			return x.ref
		}
		// materialise as a fresh copy (reads only)
		f.note("address of interior location materialised as a fresh copy")
		et := x.typ
		r := f.allocRef(st, "copy")
		cp := &Addr{ref: r, base: et, typ: et}
		st.store(cp, st.load(x))
		return r
	case *Closure:
		return f.closureTerm(x)
	case *FuncRef:
		return fnrefTerm(x.Fn)
	case *ssa.Builtin:
		return fresh("builtin", sortInt)
	case *RangeIter:
		return fresh("iter", sortInt)
	case *Tuple:
		panic("tuple as term")
	case nil:
		return f.havocOfType(typ, "nilval").(*Term)
	}
	panic(fmt.Sprintf("asTerm %T", x))
}

var closureTerms = map[*Closure]*Term{}

func (f *Frame) closureTerm(c *Closure) *Term {
	if t, ok := closureTerms[c]; ok {
		return t
	}
	t := fresh("closure", sortInt)
	closureTerms[c] = t
	f.eng.closureByTerm[t] = c
	f.addHyp(tTrue(), tGt(t, tInt(0)))
	return t
}

func (f *Frame) havocOfType(t types.Type, hint string) Value {
	if tup, ok := t.(*types.Tuple); ok {
		out := &Tuple{}
		for i := 0; i < tup.Len(); i++ {
			out.Elems = append(out.Elems, f.havocOfType(tup.At(i).Type(), fmt.Sprintf("%s_%d", hint, i)))
		}
		return out
	}
	return fresh(hint, sortOf(t))
}

func (f *Frame) havocTyped(st *State, t types.Type, hint string) Value {
	v := f.havocOfType(t, hint)
	f.assumeTypeFacts(st, v, t)
	return v
}

func (f *Frame) assumeTypeFacts(st *State, v Value, t types.Type) {
	switch x := v.(type) {
	case *Tuple:
		tup := t.(*types.Tuple)
		for i, e := range x.Elems {
			f.assumeTypeFacts(st, e, tup.At(i).Type())
		}
	case *Term:
		f.addHyp(st.pc, typeFact(x, t))
		if isPointerLike(t) {
			f.addHyp(st.pc, tLe(x, st.alloc))
		}
	}
}

var allocRankSeq int64

func (f *Frame) allocRef(st *State, hint string) *Term {
	r := fresh("new_"+hint, sortInt)
	f.addHyp(tTrue(), tGt(r, st.alloc))
	// direct facts (spare the solver the chain of allocation marks): above the entry mark, and pairwise distinct
	// from every other object allocated during this verification run (distinct static ranks)
	if f.root.entry != nil && f.root.entry.alloc != st.alloc {
		f.addHyp(tTrue(), tGt(r, f.root.entry.alloc))
	}
	allocRankSeq++
	f.addHyp(tTrue(), tEq(uf("alloc_rank", sortInt, r), tInt(allocRankSeq)))
	st.alloc = r
	return r
}

var globalBoxKeys map[*Term]string

// refAddr: address of the object a reference term points to (private box heap when it is a captured local).
func refAddr(x *Term, et types.Type) *Addr {
	return &Addr{ref: x, base: et, typ: et, boxKey: globalBoxKeys[x]}
}

func toAddr(x Value, ptrType types.Type) *Addr {
	switch x := x.(type) {
	case *Addr:
		return x
	case *Term:
		et := derefType(ptrType)
		return &Addr{ref: x, base: et, typ: et, boxKey: globalBoxKeys[x]}
	}
	panic(fmt.Sprintf("toAddr %T", x))
}

// ---------------------------------------------------------------------------------------------
// top-level execution of a function body from an entry state

// run executes the body; returns merged exit state and result values (nil if no normal return).
func (f *Frame) run(entry *State, args []Value, bindings []Value) (*State, []Value) {
	fn := f.fn
	f.args = args
	for i, p := range fn.Params {
		f.vals[p] = args[i]
		if t, ok := args[i].(*Term); ok {
			f.argTerms[p.Name()] = t
		}
		f.paramTyp[p.Name()] = p.Type()
	}
	for i, fv := range fn.FreeVars {
		if i < len(bindings) {
			f.vals[fv] = bindings[i]
		} else {
			f.vals[fv] = f.havocTyped(entry, fv.Type(), "freevar_"+fv.Name())
		}
	}
	f.entry = entry.clone()
	if f.contract != nil {
		// loops: map ordinals
		_ = f.contract
	}
	f.blockIn[fn.Blocks[0]] = entry
	for _, b := range f.order {
		var st *State
		if b == fn.Blocks[0] {
			st = entry.clone()
		} else {
			var edges []inEdge
			for _, p := range b.Preds {
				if b.Dominates(p) {
					continue // back edge
				}
				for _, oe := range f.outEdges[p] {
					if oe.to == b {
						edges = append(edges, inEdge{oe.st, oe.cond})
					}
				}
			}
			st = mergeStates(edges)
		}
		if l := f.loopOf[b]; l != nil && !st.dead {
			st = f.enterLoop(l, st)
		}
		f.blockIn[b] = st
		if os.Getenv("GOVC_DEBUG") != "" && f.parent == nil {
			fmt.Fprintf(os.Stderr, "DEBUG block %d (%s) dead=%v pc=%s\n", b.Index, b.Comment, st.dead, st.pc.Op)
		}
		if st.dead {
			continue
		}
		f.execBlock(b, st)
	}
	// merge returns
	if len(f.returns) == 0 {
		return nil, nil
	}
	var edges []inEdge
	for _, r := range f.returns {
		edges = append(edges, inEdge{r.st, r.st.pc})
	}
	exit := mergeStates(edges)
	nres := len(f.returns[0].results)
	results := make([]Value, nres)
	for i := 0; i < nres; i++ {
		var v *Term
		for j := len(f.returns) - 1; j >= 0; j-- {
			r := f.returns[j]
			if r.st.dead {
				continue
			}
			t := f.asTerm(r.results[i], fn.Signature.Results().At(i).Type(), r.st)
			if v == nil {
				v = t
			} else {
				v = tIte(r.st.pc, t, v)
			}
		}
		results[i] = v
	}
	return exit, results
}

func (f *Frame) loopModified(l *Loop) (cells map[*ssa.Alloc]bool, ms *ModSet) {
	cells = map[*ssa.Alloc]bool{}
	ms = newModSet()
	for b := range l.body {
		for _, ins := range b.Instrs {
			f.eng.instrMods(f.fn, ins, ms, cells, f.escapes)
		}
	}
	return
}

func (f *Frame) enterLoop(l *Loop, st *State) *State {
	for _, ins := range l.header.Instrs {
		if nx, ok := ins.(*ssa.Next); ok {
			if r, ok := nx.Iter.(*ssa.Range); ok {
				if it := f.iters[r]; it != nil {
					l.visited = it.Visited
				}
			}
		}
	}
	l.preState = st.clone()
	// establishment
	env := f.specEnv(st)
	env.loop = l
	var invs []*Clause
	if f.contract != nil {
		invs = f.loopInvs(l.ord)
	}
	for _, c := range invs {
		t, err := env.formula(c.Expr)
		if err != nil {
			f.eng.specError(f.name, c, err)
			continue
		}
		f.oblige(st, "inv_init", fmt.Sprintf("loop%d.%s", l.ord, c.Label), c.Props, c.Tags, t, l.header.Instrs[0].Pos(), c.Text)
	}
	// havoc
	cells, ms := f.loopModified(l)
	ns := st.clone()
	for a := range cells {
		if c, ok := f.cells[a]; ok {
			if _, live := ns.cells[c]; live {
				ns.cells[c] = fresh("loop_"+c.name, c.sort)
				f.addHyp(ns.pc, typeFact(ns.cells[c], c.typ))
				if a.Comment == "rangeindex" {
					// hidden index of `for i, x := range slice`: compiler-generated cell, initialised to -1 and only ever
					// incremented by one (no source access): structural invariant
					f.addHyp(ns.pc, tGe(ns.cells[c], tInt(-1)))
				}
			}
		}
	}
	// ghost visited cells of map ranges advanced inside the loop
	for b := range l.body {
		for _, ins := range b.Instrs {
			if nx, ok := ins.(*ssa.Next); ok {
				if r, ok := nx.Iter.(*ssa.Range); ok {
					if it := f.iters[r]; it != nil && it.Visited != nil {
						if _, live := ns.cells[it.Visited]; live {
							ns.cells[it.Visited] = fresh("loop_visited", it.Visited.sort)
						}
						if b == l.header {
							l.visited = it.Visited
						}
					}
				}
			}
		}
	}
	f.applyModSetFrame(ns, st, ms, f.entry.alloc)
	// decreases snapshot & assume invariants
	env2 := f.specEnv(ns)
	env2.loop = l
	for _, c := range invs {
		t, err := env2.formula(c.Expr)
		if err != nil {
			continue
		}
		f.addHyp(ns.pc, t)
	}
	// automatic invariant for map ranges: visited subset of dom
	l.headState = ns.clone()
	if f.contract != nil {
		if d := f.contract.LoopDec[l.ord]; d != nil {
			sv, err := env2.expr(d.Expr)
			if err == nil {
				l.decAtHead = sv.t
			} else {
				f.eng.specError(f.name, d, err)
			}
		}
	}
	return ns
}

func (f *Frame) backEdge(l *Loop, st *State, cond *Term) {
	s2 := st.clone()
	s2.pc = cond
	env := f.specEnv(s2)
	env.loop = l
	var invs []*Clause
	if f.contract != nil {
		invs = f.loopInvs(l.ord)
	}
	for _, c := range invs {
		t, err := env.formula(c.Expr)
		if err != nil {
			f.eng.specError(f.name, c, err)
			continue
		}
		f.oblige(s2, "inv_pres", fmt.Sprintf("loop%d.%s", l.ord, c.Label), c.Props, c.Tags, t, l.header.Instrs[0].Pos(), c.Text)
	}
	if f.contract != nil {
		if d := f.contract.LoopDec[l.ord]; d != nil && l.decAtHead != nil {
			sv, err := env.expr(d.Expr)
			if err == nil {
				goal := tAnd(tGe(l.decAtHead, zeroLike(l.decAtHead)), tLt(sv.t, l.decAtHead))
				f.oblige(s2, "decreases", fmt.Sprintf("loop%d", l.ord), d.Props, d.Tags, goal, l.header.Instrs[0].Pos(), d.Text)
			}
		}
	}
}

func zeroLike(t *Term) *Term {
	if t.Sort == sortReal {
		return tReal("0.0")
	}
	return tInt(0)
}

func (f *Frame) execBlock(b *ssa.BasicBlock, st *State) {
	for _, ins := range b.Instrs {
		if st.dead {
			return
		}
		f.execInstr(ins, st)
	}
}

func (f *Frame) edge(from *ssa.BasicBlock, to *ssa.BasicBlock, st *State, cond *Term) {
	full := tAnd(st.pc, cond)
	if to.Dominates(from) {
		if l := f.loopOf[to]; l != nil {
			f.backEdge(l, st, full)
		}
		return
	}
	f.outEdges[from] = append(f.outEdges[from], outEdge{to: to, cond: full, st: st})
}

func (f *Frame) execInstr(ins ssa.Instruction, st *State) {
	defer func() {
		if r := recover(); r != nil {
			pos := f.eng.prog.Fset.Position(ins.Pos())
			panic(fmt.Sprintf("%v\n  at %s: %s (%s:%d)", r, f.name, ins.String(), pos.Filename, pos.Line))
		}
	}()
	switch ins := ins.(type) {
	case *ssa.DebugRef:
	case *ssa.Alloc:
		f.execAlloc(ins, st)
	case *ssa.Store:
		addr := toAddr(f.get(ins.Addr), ins.Addr.Type())
		if addr.ref != nil {
			f.safe(st, "nil", tNot(tEq(addr.ref, tInt(0))), ins.Pos(), "store through "+ins.Addr.Name())
		}
		val := f.asTerm(f.get(ins.Val), ins.Val.Type(), st)
		f.storeChecked(st, addr, val, ins)
	case *ssa.UnOp:
		f.vals[ins] = f.execUnOp(ins, st)
	case *ssa.BinOp:
		f.vals[ins] = f.execBinOp(ins, st)
	case *ssa.Call:
		f.vals[ins] = f.execCall(ins, &ins.Call, st)
	case *ssa.ChangeType:
		f.vals[ins] = f.get(ins.X)
		if o, ok := f.origin[ins.X]; ok {
			f.origin[ins] = o
		}
	case *ssa.Convert:
		f.vals[ins] = f.execConvert(ins, st)
	case *ssa.ChangeInterface:
		f.vals[ins] = f.get(ins.X)
	case *ssa.MakeInterface:
		if f.root.safety && f.eng.typeInvFor(ins.X.Type()) != nil {
			// closed-world rule of the sweep: an interface never holds a nil pointer of a type with a type invariant
			// (checked where the pointer is boxed, assumed where a method is dispatched through the interface)
			if x, ok := f.get(ins.X).(*Term); ok {
				f.safe(st, "nil", tNot(tEq(x, tInt(0))), ins.Pos(), "nil "+ins.X.Type().String()+" stored in an interface")
			}
		}
		f.vals[ins] = f.box(st, ins.X.Type(), f.get(ins.X))
	case *ssa.TypeAssert:
		f.vals[ins] = f.execTypeAssert(ins, st)
	case *ssa.Extract:
		tup := f.get(ins.Tuple).(*Tuple)
		f.vals[ins] = tup.Elems[ins.Index]
	case *ssa.Field:
		x := f.term(ins.X, st)
		f.vals[ins] = tField(x, ins.Field)
	case *ssa.FieldAddr:
		f.vals[ins] = f.execFieldAddr(ins, st)
	case *ssa.Index:
		f.vals[ins] = f.execIndex(ins, st)
	case *ssa.IndexAddr:
		f.vals[ins] = f.execIndexAddr(ins, st)
	case *ssa.Lookup:
		f.vals[ins] = f.execLookup(ins, st)
	case *ssa.MapUpdate:
		f.execMapUpdate(ins, st)
	case *ssa.Slice:
		f.vals[ins] = f.execSlice(ins, st)
	case *ssa.MakeSlice:
		ln := f.term(ins.Len, st)
		f.safe(st, "makeslice", tGe(ln, tInt(0)), ins.Pos(), "len")
		srt := sortOf(ins.Type())
		f.vals[ins] = mkSlice(srt, zeroOfSort(srt.Fields[0].Sort), ln, tTrue())
	case *ssa.MakeMap:
		mt := ins.Type().Underlying().(*types.Map)
		r := f.allocRef(st, "map")
		key := mapHeapKey(mt)
		os := mapObjSort(mt)
		st.setHeap(key, tStore(st.heap(key), r, tCtor(os, tConstArr(os.Fields[0].Sort, tFalse()), zeroOfSort(os.Fields[1].Sort))))
		f.vals[ins] = r
	case *ssa.MakeClosure:
		c := &Closure{Fn: ins.Fn.(*ssa.Function)}
		for _, b := range ins.Bindings {
			c.Bindings = append(c.Bindings, f.get(b))
		}
		f.vals[ins] = c
	case *ssa.MakeChan:
		f.vals[ins] = f.allocRef(st, "chan")
	case *ssa.Phi:
		f.vals[ins] = f.execPhi(ins, st)
	case *ssa.Range:
		f.vals[ins] = f.execRange(ins, st)
	case *ssa.Next:
		f.vals[ins] = f.execNext(ins, st)
	case *ssa.If:
		c := f.term(ins.Cond, st)
		if os.Getenv("GOVC_DEBUG") != "" && f.parent == nil {
			fmt.Fprintf(os.Stderr, "DEBUG if in block %d cond=%s %s args=%d\n", ins.Block().Index, c.Op, ins.Cond.String(), len(c.Args))
		}
		b := ins.Block()
		f.edge(b, b.Succs[0], st.clone(), c)
		f.edge(b, b.Succs[1], st.clone(), tNot(c))
		st.dead = true
	case *ssa.Jump:
		b := ins.Block()
		f.edge(b, b.Succs[0], st.clone(), tTrue())
		st.dead = true
	case *ssa.Return:
		var res []Value
		for _, r := range ins.Results {
			res = append(res, f.get(r))
		}
		f.atReturn(st, ins)
		f.returns = append(f.returns, retInfo{st.clone(), res})
		st.dead = true
	case *ssa.Panic:
		if f.root.safety {
			f.oblige(st, "safety", "panic:explicit panic", []string{"C20"}, nil, tFalse(), ins.Pos(), "panic("+ins.X.Name()+")")
		}
		st.dead = true
	case *ssa.RunDefers:
		f.execRunDefers(ins, st)
	case *ssa.Defer:
		c, ok := f.deferOn[ins]
		if !ok {
			c = f.newCell("defer$on", types.Typ[types.Bool], nil)
			f.deferOn[ins] = c
			f.deferred = append(f.deferred, ins)
		}
		if f.inLoop(ins.Block()) {
			f.note("defer inside loop: executed at most once in the model")
		}
		st.cells[c] = tTrue()
		// capture argument values now
		var vs []Value
		for _, a := range ins.Call.Args {
			vs = append(vs, f.get(a))
		}
		f.vals[deferKey{ins}] = &Tuple{Elems: vs}
	case *ssa.Go:
		f.note("go statement: callee effects havoc-ed, ordering not modelled")
		f.execCallCommon(ins, &ins.Call, st, true)
	case *ssa.Send:
		f.note("channel send ignored")
	case *ssa.Select:
		f.note("select: result havoc-ed")
		v := f.havocTyped(st, ins.Type(), "select")
		if tup, ok := v.(*Tuple); ok && len(tup.Elems) > 0 {
			if idx, ok := tup.Elems[0].(*Term); ok && idx.Sort == sortInt {
				// the chosen case index is one of the cases (or -1: default of a non-blocking select)
				lo := int64(0)
				if !ins.Blocking {
					lo = -1
				}
				f.addHyp(st.pc, tAnd(tLe(tInt(lo), idx), tLt(idx, tInt(int64(len(ins.States))))))
			}
		}
		f.vals[ins] = v
	case *ssa.MultiConvert, *ssa.SliceToArrayPointer:
		f.note("unsupported conversion havoc-ed")
		f.vals[ins.(ssa.Value)] = f.havocTyped(st, ins.(ssa.Value).Type(), "conv")
	default:
		if v, ok := ins.(ssa.Value); ok {
			f.note(fmt.Sprintf("unsupported instruction %T havoc-ed", ins))
			f.vals[v] = f.havocTyped(st, v.Type(), "unsup")
		} else {
			f.note(fmt.Sprintf("unsupported instruction %T ignored", ins))
		}
	}
}

type deferKey struct{ d *ssa.Defer }

func (deferKey) Name() string                  { return "defer" }
func (deferKey) String() string                { return "defer" }
func (deferKey) Type() types.Type              { return nil }
func (deferKey) Parent() *ssa.Function         { return nil }
func (deferKey) Referrers() *[]ssa.Instruction { return nil }
func (deferKey) Pos() token.Pos                { return token.NoPos }

func (f *Frame) inLoop(b *ssa.BasicBlock) bool {
	for _, l := range f.loops {
		if l.body[b] {
			return true
		}
	}
	return false
}

func (f *Frame) execAlloc(ins *ssa.Alloc, st *State) {
	et := derefType(ins.Type())
	if ins.Comment == "defer$stack" {
		f.vals[ins] = &Addr{cell: f.newCell("defer$stack", types.Typ[types.Int], ins), base: types.Typ[types.Int], typ: types.Typ[types.Int]}
		return
	}
	if f.escapes[ins] {
		r := f.allocRef(st, ins.Comment)
		a := &Addr{ref: r, base: et, typ: et}
		if bk := staticBoxKey(ins); bk != "" {
			a.boxKey = bk
			f.eng.boxKeys[r] = bk
		}
		st.store(a, zeroOf(et))
		f.vals[ins] = r
		return
	}
	c, ok := f.cells[ins]
	if !ok {
		c = f.newCell(ins.Comment, et, ins)
		f.cells[ins] = c
	}
	st.cells[c] = zeroOfSort(c.sort)
	f.vals[ins] = &Addr{cell: c, base: et, typ: et}
}

func (f *Frame) storeChecked(st *State, addr *Addr, val *Term, ins ssa.Instruction) {
	// in-place slice element store: the origin must still hold the slice we loaded
	for _, p := range addr.path {
		if p.kind == stepSliceElem {
			f.note("in-place slice element store (value model: aliases of the slice are not updated)")
		}
	}
	if err := st.store(addr, val); err != nil {
		f.note("store dropped: " + err.Error())
	}
}

func (f *Frame) execUnOp(ins *ssa.UnOp, st *State) Value {
	switch ins.Op {
	case token.MUL: // load
		x := f.get(ins.X)
		addr := toAddr(x, ins.X.Type())
		if addr.ref != nil {
			f.safe(st, "nil", tNot(tEq(addr.ref, tInt(0))), ins.Pos(), "load through "+ins.X.Name())
		}
		if _, ok := ins.Type().(*types.Tuple); ok {
			return f.havocOfType(ins.Type(), "ld")
		}
		if ins.Type().String() == "$ssa.deferStack" || strings.Contains(ins.Type().String(), "deferStack") {
			return tInt(0)
		}
		v := st.load(addr)
		if addr.cell == nil || len(addr.path) > 0 {
			// loaded from heap / interior: type facts
			f.addHyp(st.pc, typeFact(v, ins.Type()))
			if isPointerLike(ins.Type()) {
				f.addHyp(st.pc, tLe(v, st.alloc))
			}
		}
		if _, ok := ins.Type().Underlying().(*types.Slice); ok {
			f.origin[ins] = addr
		}
		return v
	case token.NOT:
		return tNot(f.term(ins.X, st))
	case token.SUB:
		x := f.term(ins.X, st)
		return tNeg(x)
	case token.XOR:
		return uf("bitnot", sortInt, f.term(ins.X, st))
	case token.ARROW:
		f.note("channel receive: result havoc-ed")
		return f.havocTyped(st, ins.Type(), "recv")
	}
	panic("unop " + ins.Op.String())
}

func (f *Frame) execBinOp(ins *ssa.BinOp, st *State) Value {
	x := f.term(ins.X, st)
	y := f.term(ins.Y, st)
	xt := ins.X.Type()
	isInt := false
	isFloat := false
	isString := false
	if b, ok := xt.Underlying().(*types.Basic); ok {
		isInt = b.Info()&types.IsInteger != 0
		isFloat = b.Info()&types.IsFloat != 0
		isString = b.Info()&types.IsString != 0
	}
	switch ins.Op {
	case token.EQL:
		return f.eqTerms(x, y, xt)
	case token.NEQ:
		return tNot(f.eqTerms(x, y, xt))
	case token.LSS, token.LEQ, token.GTR, token.GEQ:
		if isString {
			lt := func(a, b *Term) *Term { return strLt(a, b) }
			switch ins.Op {
			case token.LSS:
				return lt(x, y)
			case token.GTR:
				return lt(y, x)
			case token.LEQ:
				return tNot(lt(y, x))
			default:
				return tNot(lt(x, y))
			}
		}
		switch ins.Op {
		case token.LSS:
			return tLt(x, y)
		case token.LEQ:
			return tLe(x, y)
		case token.GTR:
			return tGt(x, y)
		default:
			return tGe(x, y)
		}
	case token.ADD, token.SUB, token.MUL:
		if isString {
			return uf("str_concat", sortStr, x, y)
		}
		var r *Term
		switch ins.Op {
		case token.ADD:
			r = tAdd(x, y)
		case token.SUB:
			r = tSub(x, y)
		default:
			r = tMul(x, y)
		}
		if isInt {
			f.overflow(st, r, ins.Type(), ins.Pos(), ins.Op.String())
		}
		return r
	case token.QUO:
		if isFloat {
			return realDiv(x, y)
		}
		f.safe(st, "div0", tNot(tEq(y, tInt(0))), ins.Pos(), "division by zero")
		return goDiv(x, y)
	case token.REM:
		f.safe(st, "div0", tNot(tEq(y, tInt(0))), ins.Pos(), "division by zero")
		return goRem(x, y)
	case token.AND, token.OR, token.XOR, token.SHL, token.SHR, token.AND_NOT:
		if x.Sort == sortBool {
			break
		}
		if ins.Op == token.AND {
			// x & 1 (flag test on non-negative values): parity
			if c, ok := isIntConst(y); ok && c == 1 {
				return mk("mod", sortInt, x, tInt(2))
			}
			if c, ok := isIntConst(x); ok && c == 1 {
				return mk("mod", sortInt, y, tInt(2))
			}
			if cx, ok := isIntConst(x); ok {
				if cy, ok := isIntConst(y); ok {
					return tInt(cx & cy)
				}
			}
		}
		f.note("bitwise operator abstracted as uninterpreted function")
		r := uf("bitop_"+sanitize(ins.Op.String()), sortInt, x, y)
		f.addHyp(st.pc, typeFact(r, ins.Type()))
		return r
	}
	panic("binop " + ins.Op.String())
}

func goDiv(x, y *Term) *Term {
	// Go truncates toward zero; SMT div floors for positive divisor (euclidean).
	if c, ok := isIntConst(y); ok && c > 0 {
		if cx, ok := isIntConst(x); ok {
			return tInt(cx / c)
		}
		return tIte(tGe(x, tInt(0)), mk("div", sortInt, x, y), tNeg(mk("div", sortInt, tNeg(x), y)))
	}
	ax := tIte(tGe(x, tInt(0)), x, tNeg(x))
	ay := tIte(tGe(y, tInt(0)), y, tNeg(y))
	q := mk("div", sortInt, ax, ay)
	same := tEq(tGe(x, tInt(0)), tGe(y, tInt(0)))
	return tIte(same, q, tNeg(q))
}

func goRem(x, y *Term) *Term {
	return tSub(x, tMul(goDiv(x, y), y))
}

func strLt(a, b *Term) *Term {
	addAxiom("str_lt_order", strOrderAxiom(), "str_lt")
	return uf("str_lt", sortBool, a, b)
}

func strOrderAxiom() *Term {
	ba, a := freshBVar("a", sortStr)
	bb, b := freshBVar("b", sortStr)
	bc, c := freshBVar("c", sortStr)
	lt := func(x, y *Term) *Term { return app("str_lt", sortBool, x, y) }
	declFun("str_lt", []*Sort{sortStr, sortStr}, sortBool)
	irrefl := mkQuant("forall", []BVar{ba}, tNot(lt(a, a)))
	trans := mkQuant("forall", []BVar{ba, bb, bc}, tImp(tAnd(lt(a, b), lt(b, c)), lt(a, c)))
	total := mkQuant("forall", []BVar{ba, bb}, tOr(lt(a, b), tEq(a, b), lt(b, a)))
	return tAnd(irrefl, trans, total)
}

func (f *Frame) overflow(st *State, r *Term, t types.Type, pos token.Pos, what string) {
	lo, hi, ok := intRange(t)
	if !ok {
		return
	}
	cond := tAnd(tLe(tIntStr(lo), r), tLe(r, tIntStr(hi)))
	if f.contract != nil && f.contract.Flags["overflow"] {
		f.oblige(st, "overflow", what+"@"+f.posLabel(pos), f.supportProps(), nil, cond, pos, "no overflow in "+what)
		f.addHyp(st.pc, cond)
	} else {
		f.root.notes[f.name+": machine integer "+what+" treated as mathematical (no overflow obligation requested)"] = true
	}
}

func (f *Frame) posLabel(pos token.Pos) string {
	// stable label: ordinal of this position's line among lines of the function is fragile; use
	// the source text of the expression's line stripped of whitespace instead.
	p := f.eng.prog.Fset.Position(pos)
	return f.eng.sourceLine(p.Filename, p.Line)
}

func (f *Frame) supportProps() []string {
	if f.contract == nil {
		return nil
	}
	set := map[string]bool{}
	add := func(cs []*Clause) {
		for _, c := range cs {
			for _, p := range c.Props {
				set[p] = true
			}
		}
	}
	add(f.contract.Ensures)
	add(f.contract.AssertAt)
	add(f.contract.CrashInv)
	for _, cs := range f.contract.LoopInv {
		add(cs)
	}
	var out []string
	for p := range set {
		out = append(out, p)
	}
	sort.Strings(out)
	return out
}

func (f *Frame) eqTerms(x, y *Term, t types.Type) *Term {
	if x.Sort != y.Sort {
		f.note("comparison of differently-sorted values havoc-ed")
		return fresh("cmp", sortBool)
	}
	if _, ok := t.Underlying().(*types.Slice); ok {
		// only comparison with nil is legal
		if y.Op == zeroOfSort(y.Sort).Op || true {
			// x == nil
			if isZeroSlice(y) {
				return tNot(slNN(x))
			}
			if isZeroSlice(x) {
				return tNot(slNN(y))
			}
		}
	}
	return tEq(x, y)
}

func isZeroSlice(t *Term) bool {
	return t == zeroOfSort(t.Sort)
}

func (f *Frame) execConvert(ins *ssa.Convert, st *State) Value {
	x := f.term(ins.X, st)
	from, to := ins.X.Type().Underlying(), ins.Type().Underlying()
	fb, fok := from.(*types.Basic)
	tb, tok := to.(*types.Basic)
	if fok && tok {
		fi, ti := fb.Info()&types.IsInteger != 0, tb.Info()&types.IsInteger != 0
		ff, tf := fb.Info()&types.IsFloat != 0, tb.Info()&types.IsFloat != 0
		fs, ts := fb.Info()&types.IsString != 0, tb.Info()&types.IsString != 0
		switch {
		case fi && ti:
			lo, hi, _ := intRange(ins.Type())
			flo, fhi, _ := intRange(ins.X.Type())
			if !(rangeWithin(flo, fhi, lo, hi)) {
				cond := tAnd(tLe(tIntStr(lo), x), tLe(x, tIntStr(hi)))
				if f.contract != nil && f.contract.Flags["overflow"] {
					f.oblige(st, "overflow", "convert@"+f.posLabel(ins.Pos()), f.supportProps(), nil, cond, ins.Pos(), "conversion in range")
					f.addHyp(st.pc, cond)
				} else {
					f.note("narrowing integer conversion treated as value-preserving")
				}
			}
			return x
		case fi && tf:
			return mk("to_real", sortReal, x)
		case ff && ti:
			fl := mk("to_int", sortInt, x)
			neg := tNeg(mk("to_int", sortInt, tNeg(x)))
			return tIte(tGe(x, tReal("0.0")), fl, neg)
		case ff && tf:
			return x
		case fs && ts:
			return x
		case fi && ts:
			return uf("str_of_rune", sortStr, x)
		}
	}
	// string <-> []byte / []rune
	if _, ok := to.(*types.Slice); ok && fok && fb.Info()&types.IsString != 0 {
		r := uf("bytes_of_str", sortOf(ins.Type()), x)
		f.addHyp(st.pc, tAnd(tEq(slLen(r), strLen(x)), slNN(r)))
		return r
	}
	if _, ok := from.(*types.Slice); ok && tok && tb.Info()&types.IsString != 0 {
		r := uf("str_of_bytes", sortStr, x)
		f.addHyp(st.pc, tEq(strLen(r), slLen(x)))
		return r
	}
	if sortOf(ins.X.Type()) == sortOf(ins.Type()) {
		return x
	}
	f.note("conversion havoc-ed: " + ins.String())
	return f.havocTyped(st, ins.Type(), "conv")
}

func strLen(s *Term) *Term {
	if strings.HasPrefix(s.Op, "#s") {
		// literal: length known
		return tInt(int64(len(unquoteLit(s.Op))))
	}
	addAxiom("str_len_nonneg", func() *Term {
		b, x := freshBVar("s", sortStr)
		declFun("str_len", []*Sort{sortStr}, sortInt)
		return mkQuant("forall", []BVar{b}, tGe(app("str_len", sortInt, x), tInt(0)))
	}(), "str_len")
	return uf("str_len", sortInt, s)
}

func unquoteLit(op string) string {
	s := op[2:]
	var out string
	fmt.Sscanf(s, "%q", &out)
	return out
}

func rangeWithin(flo, fhi, lo, hi string) bool {
	cmp := func(a, b string) int {
		x := constant.MakeFromLiteral(strings.TrimPrefix(a, "-"), token.INT, 0)
		if strings.HasPrefix(a, "-") {
			x = constant.UnaryOp(token.SUB, x, 0)
		}
		y := constant.MakeFromLiteral(strings.TrimPrefix(b, "-"), token.INT, 0)
		if strings.HasPrefix(b, "-") {
			y = constant.UnaryOp(token.SUB, y, 0)
		}
		if constant.Compare(x, token.LSS, y) {
			return -1
		}
		if constant.Compare(x, token.GTR, y) {
			return 1
		}
		return 0
	}
	return cmp(flo, lo) >= 0 && cmp(fhi, hi) <= 0
}

// ---------------------------------------------------------------------------------------------
// interfaces

func (e *Engine) typeTag(t types.Type) int64 {
	k := types.TypeString(t, nil)
	if id, ok := e.tags[k]; ok {
		return id
	}
	id := int64(len(e.tags) + 1)
	e.tags[k] = id
	e.tagTypes[id] = t
	return id
}

func (f *Frame) box(st *State, t types.Type, v Value) Value {
	if isInterface(t) {
		return v
	}
	x := f.asTerm(v, t, st)
	name := "box$" + typeKey(t)
	b := uf(name, sortInt, x)
	declFun("itag", []*Sort{sortInt}, sortInt)
	declFun("unbox$"+typeKey(t), []*Sort{sortInt}, x.Sort)
	f.addHyp(tTrue(), tAnd(tGt(b, tInt(0)),
		tEq(app("itag", sortInt, b), tInt(f.eng.typeTag(t))),
		tEq(app("unbox$"+typeKey(t), x.Sort, b), x)))
	f.eng.boxTypes[name] = t
	return b
}

func (f *Frame) unbox(x *Term, t types.Type) *Term {
	name := "unbox$" + typeKey(t)
	if x.Op == "@box$"+typeKey(t) {
		return x.Args[0]
	}
	return uf(name, sortOf(t), x)
}

func (f *Frame) itag(x *Term) *Term { return uf("itag", sortInt, x) }

func (f *Frame) execTypeAssert(ins *ssa.TypeAssert, st *State) Value {
	x := f.term(ins.X, st)
	var ok, val *Term
	if isInterface(ins.AssertedType) {
		// interface-to-interface: non-nil and implements (abstract)
		impl := uf("implements$"+typeKey(ins.AssertedType), sortBool, f.itag(x))
		ok = tAnd(tNot(tEq(x, tInt(0))), impl)
		val = x
	} else {
		ok = tAnd(tNot(tEq(x, tInt(0))), tEq(f.itag(x), tInt(f.eng.typeTag(ins.AssertedType))))
		val = f.unbox(x, ins.AssertedType)
	}
	if ins.CommaOk {
		zero := zeroOf(ins.AssertedType)
		if isInterface(ins.AssertedType) {
			zero = tInt(0)
		}
		return &Tuple{Elems: []Value{tIte(ok, val, zero), ok}}
	}
	f.safe(st, "typeassert", ok, ins.Pos(), ins.X.Name()+".("+typeKey(ins.AssertedType)+")")
	f.addHyp(st.pc, typeFact(val, ins.AssertedType))
	return val
}

// ---------------------------------------------------------------------------------------------
// addresses, indexing, maps

func (f *Frame) execFieldAddr(ins *ssa.FieldAddr, st *State) Value {
	x := f.get(ins.X)
	stt := derefType(ins.X.Type())
	ft := stt.Underlying().(*types.Struct).Field(ins.Field).Type()
	switch x := x.(type) {
	case *Addr:
		na := *x
		na.path = append(append([]PathStep{}, x.path...), PathStep{kind: stepField, field: ins.Field, ctyp: stt})
		na.typ = ft
		return &na
	case *Term:
		f.safe(st, "nil", tNot(tEq(x, tInt(0))), ins.Pos(), ins.X.Name()+"."+stt.Underlying().(*types.Struct).Field(ins.Field).Name())
		return &Addr{ref: x, base: stt, typ: ft, path: []PathStep{{kind: stepField, field: ins.Field, ctyp: stt}}}
	}
	panic("fieldaddr")
}

func (f *Frame) execIndex(ins *ssa.Index, st *State) Value {
	x := f.term(ins.X, st)
	i := f.term(ins.Index, st)
	switch u := ins.X.Type().Underlying().(type) {
	case *types.Array:
		f.safe(st, "index", tAnd(tLe(tInt(0), i), tLt(i, tInt(u.Len()))), ins.Pos(), "array index")
		return tSelect(x, i)
	case *types.Basic: // string
		f.safe(st, "index", tAnd(tLe(tInt(0), i), tLt(i, strLen(x))), ins.Pos(), "string index")
		r := uf("str_at", sortInt, x, i)
		f.addHyp(st.pc, tAnd(tLe(tInt(0), r), tLe(r, tInt(255))))
		return r
	}
	panic("index")
}

func (f *Frame) execIndexAddr(ins *ssa.IndexAddr, st *State) Value {
	i := f.term(ins.Index, st)
	switch u := ins.X.Type().Underlying().(type) {
	case *types.Slice:
		x := f.term(ins.X, st)
		f.safe(st, "index", tAnd(tLe(tInt(0), i), tLt(i, slLen(x))), ins.Pos(), ins.X.Name()+"["+ins.Index.Name()+"]")
		if o, ok := f.origin[ins.X]; ok && o.detached == nil && st.load(o) == x {
			na := *o
			na.path = append(append([]PathStep{}, o.path...), PathStep{kind: stepSliceElem, index: i, ctyp: ins.X.Type()})
			na.typ = u.Elem()
			return &na
		}
		return &Addr{detached: tSelect(slArr(x), i), base: u.Elem(), typ: u.Elem()}
	case *types.Pointer:
		at := u.Elem().Underlying().(*types.Array)
		f.safe(st, "index", tAnd(tLe(tInt(0), i), tLt(i, tInt(at.Len()))), ins.Pos(), "array index")
		x := f.get(ins.X)
		switch x := x.(type) {
		case *Addr:
			na := *x
			na.path = append(append([]PathStep{}, x.path...), PathStep{kind: stepArrayElem, index: i, ctyp: u.Elem()})
			na.typ = at.Elem()
			return &na
		case *Term:
			f.safe(st, "nil", tNot(tEq(x, tInt(0))), ins.Pos(), "array pointer")
			return &Addr{ref: x, base: u.Elem(), typ: at.Elem(), path: []PathStep{{kind: stepArrayElem, index: i, ctyp: u.Elem()}}}
		}
	}
	panic("indexaddr " + ins.X.Type().String())
}

func (f *Frame) mapObj(st *State, m *Term, mt *types.Map) *Term {
	h := st.heap(mapHeapKey(mt))
	// the nil map (reference 0) is empty in every heap (writes to it panic)
	if f.root.nilMapDone == nil {
		f.root.nilMapDone = map[int]bool{}
	}
	if !f.root.nilMapDone[h.id] {
		f.root.nilMapDone[h.id] = true
		nilObj := tSelect(h, tInt(0))
		b, x := freshBVar("x", mapDom(nilObj).Sort.Idx)
		f.root.hyps = append(f.root.hyps, mkQuant("forall", []BVar{b}, tNot(tSelect(mapDom(nilObj), x))))
	}
	return tSelect(h, m)
}

func mapDom(o *Term) *Term { return tField(o, 0) }
func mapVal(o *Term) *Term { return tField(o, 1) }

func (f *Frame) mapLookup(st *State, m *Term, mt *types.Map, k *Term) (*Term, *Term) {
	// a map reference that is itself the result of a guarded lookup (ite(found, ref, nil): m[u][t]) is looked through:
	// the guard moves into `found`, so that the select terms contain no ite and can serve as instantiation patterns
	guard := tTrue()
	for m.Op == "ite" && m.Args[2] == tInt(0) {
		guard = tAnd(guard, m.Args[0])
		m = m.Args[1]
	}
	o := f.mapObj(st, m, mt)
	isNil := tEq(m, tInt(0))
	found := tAnd(guard, tAnd(tNot(isNil), tSelect(mapDom(o), k)))
	v := tIte(found, tSelect(mapVal(o), k), zeroOf(mt.Elem()))
	return v, found
}

func (f *Frame) execLookup(ins *ssa.Lookup, st *State) Value {
	x := f.term(ins.X, st)
	k := f.term(ins.Index, st)
	mt, ok := ins.X.Type().Underlying().(*types.Map)
	if !ok {
		// string index
		r := uf("str_at", sortInt, x, k)
		return r
	}
	v, found := f.mapLookup(st, x, mt, k)
	f.addHyp(st.pc, typeFact(v, mt.Elem()))
	if isPointerLike(mt.Elem()) {
		f.addHyp(st.pc, tLe(v, st.alloc))
	}
	if ins.CommaOk {
		return &Tuple{Elems: []Value{v, found}}
	}
	return v
}

func (f *Frame) execMapUpdate(ins *ssa.MapUpdate, st *State) {
	m := f.term(ins.Map, st)
	k := f.term(ins.Key, st)
	v := f.term(ins.Value, st)
	mt := ins.Map.Type().Underlying().(*types.Map)
	f.safe(st, "nilmap", tNot(tEq(m, tInt(0))), ins.Pos(), "assignment to entry in nil map "+ins.Map.Name())
	f.mapStore(st, m, mt, k, v)
	// store lemma "after m[k] = v, k is a key of m", stated through an alias of m so that it is not simplified away:
	// it puts the ground term dom(M'[m])[k] in front of the solver, which quantified goals of the form
	// "exists k :: has(m, k)" need as their witness
	if !m.open && !k.open {
		alias := fresh("mref", sortInt)
		f.addHyp(st.pc, tEq(alias, m))
		f.addHyp(st.pc, tSelect(mapDom(f.mapObj(st, alias, mt)), k))
	}
}

func (f *Frame) mapStore(st *State, m *Term, mt *types.Map, k, v *Term) {
	key := mapHeapKey(mt)
	o := f.mapObj(st, m, mt)
	no := tCtor(o.Sort, tStore(mapDom(o), k, tTrue()), tStore(mapVal(o), k, v))
	st.setHeap(key, tStore(st.heap(key), m, no))
}

func (f *Frame) mapDelete(st *State, m *Term, mt *types.Map, k *Term) {
	key := mapHeapKey(mt)
	o := f.mapObj(st, m, mt)
	no := tCtor(o.Sort, tStore(mapDom(o), k, tFalse()), mapVal(o))
	// deleting from a nil map is a no-op
	st.setHeap(key, tIte(tEq(m, tInt(0)), st.heap(key), tStore(st.heap(key), m, no)))
}

func (f *Frame) execSlice(ins *ssa.Slice, st *State) Value {
	var lo, hi *Term
	if ins.Low != nil {
		lo = f.term(ins.Low, st)
	} else {
		lo = tInt(0)
	}
	switch u := ins.X.Type().Underlying().(type) {
	case *types.Slice:
		x := f.term(ins.X, st)
		if ins.High != nil {
			hi = f.term(ins.High, st)
		} else {
			hi = slLen(x)
		}
		// capacity is not modelled: bound by length (stricter than Go; reslicing beyond len is flagged)
		f.safe(st, "slice", tAnd(tLe(tInt(0), lo), tLe(lo, hi), tLe(hi, slLen(x))), ins.Pos(), "slice bounds (capacity not modelled: high <= len)")
		return f.subSlice(st, x, lo, hi)
	case *types.Basic: // string
		x := f.term(ins.X, st)
		if ins.High != nil {
			hi = f.term(ins.High, st)
		} else {
			hi = strLen(x)
		}
		f.safe(st, "slice", tAnd(tLe(tInt(0), lo), tLe(lo, hi), tLe(hi, strLen(x))), ins.Pos(), "string slice bounds")
		r := uf("str_sub", sortStr, x, lo, hi)
		f.addHyp(st.pc, tEq(strLen(r), tSub(hi, lo)))
		return r
	case *types.Pointer:
		at := u.Elem().Underlying().(*types.Array)
		if ins.High != nil {
			hi = f.term(ins.High, st)
		} else {
			hi = tInt(at.Len())
		}
		xa := toAddr(f.get(ins.X), ins.X.Type())
		arr := st.load(xa)
		srt := sortOf(ins.Type())
		full := mkSlice(srt, arr, tInt(at.Len()), tTrue())
		f.safe(st, "slice", tAnd(tLe(tInt(0), lo), tLe(lo, hi), tLe(hi, tInt(at.Len()))), ins.Pos(), "array slice bounds")
		return f.subSlice(st, full, lo, hi)
	}
	panic("slice")
}

func (f *Frame) subSlice(st *State, x, lo, hi *Term) *Term {
	if c, ok := isIntConst(lo); ok && c == 0 {
		return mkSlice(x.Sort, slArr(x), hi, tOr(slNN(x), tGt(hi, tInt(0))))
	}
	as := slArr(x).Sort
	sn := "shift$" + sanitize(as.Name)
	declFun(sn, []*Sort{as, sortInt}, as)
	ba, a := freshBVar("a", as)
	bl, l := freshBVar("lo", sortInt)
	bk, k := freshBVar("k", sortInt)
	sh := app(sn, as, a, l)
	fwd := mkForallPat([]BVar{ba, bl, bk}, tEq(tSelect(sh, k), tSelect(a, tAdd(l, k))), []*Term{tSelect(sh, k)})
	bj, j := freshBVar("j", sortInt)
	back := mkForallPat([]BVar{ba, bl, bj}, tEq(tSelect(a, j), tSelect(sh, tSub(j, l))), []*Term{tSelect(a, j), sh})
	addAxiom("def_"+sn, tAnd(fwd, back), sn)
	arr := app(sn, as, slArr(x), lo)
	return mkSlice(x.Sort, arr, tSub(hi, lo), tTrue())
}

func (f *Frame) execPhi(ins *ssa.Phi, st *State) Value {
	b := ins.Block()
	var v *Term
	for i := len(b.Preds) - 1; i >= 0; i-- {
		p := b.Preds[i]
		var cond *Term
		for _, oe := range f.outEdges[p] {
			if oe.to == b {
				if cond == nil {
					cond = oe.cond
				} else {
					cond = tOr(cond, oe.cond)
				}
			}
		}
		if cond == nil {
			continue
		}
		t := f.asTerm(f.get(ins.Edges[i]), ins.Type(), st)
		if v == nil {
			v = t
		} else {
			v = tIte(cond, t, v)
		}
	}
	if v == nil {
		return f.havocTyped(st, ins.Type(), "phi")
	}
	return v
}

func (f *Frame) execRange(ins *ssa.Range, st *State) Value {
	mt, ok := ins.X.Type().Underlying().(*types.Map)
	if !ok {
		f.note("range over string: havoc-ed")
		it := &RangeIter{IsStr: true}
		f.iters[ins] = it
		return it
	}
	m := f.term(ins.X, st)
	it := f.iters[ins]
	if it == nil {
		ks := sortOf(mt.Key())
		c := &Cell{name: "visited", sort: arraySort(ks, sortBool), ghost: true}
		cellSeq++
		c.id = cellSeq
		it = &RangeIter{MapType: mt, Visited: c}
		f.iters[ins] = it
		// ordinal = ordinal of the loop whose header follows
		n := len(f.visitedN) + 1
		f.visitedN[n] = c
	}
	it.Map = m
	it.Dom0 = mapDom(f.mapObj(st, m, mt))
	st.cells[it.Visited] = tConstArr(it.Visited.sort, tFalse())
	return it
}

func (f *Frame) execNext(ins *ssa.Next, st *State) Value {
	it, _ := f.get(ins.Iter).(*RangeIter)
	tup := ins.Type().(*types.Tuple)
	if it == nil || it.IsStr {
		return &Tuple{Elems: []Value{fresh("ok", sortBool), f.havocTyped(st, tup.At(1).Type(), "k"), f.havocTyped(st, tup.At(2).Type(), "v")}}
	}
	mt := it.MapType
	ok := fresh("range_ok", sortBool)
	k := fresh("range_k", sortOf(mt.Key()))
	o := f.mapObj(st, it.Map, mt)
	vis := st.cells[it.Visited]
	if vis == nil {
		vis = fresh("visited", it.Visited.sort)
	}
	isNil := tEq(it.Map, tInt(0))
	dom := mapDom(o)
	b, x := freshBVar("x", k.Sort)
	f.addHyp(st.pc, tImp(ok, tAnd(tNot(isNil), tSelect(dom, k), tNot(tSelect(vis, k)))))
	f.addHyp(st.pc, tImp(tNot(ok), tOr(isNil, mkQuant("forall", []BVar{b}, tImp(tSelect(dom, x), tSelect(vis, x))))))
	// a visited key was in the map when the range started or is in it now (the body may delete the key it is
	// visiting: "visited => still in the map" would be contradictory then)
	b2, x2 := freshBVar("x", k.Sort)
	inDom := tSelect(dom, x2)
	if it.Dom0 != nil && it.Dom0 != dom {
		inDom = tOr(tSelect(it.Dom0, x2), inDom)
	}
	f.addHyp(st.pc, mkQuant("forall", []BVar{b2}, tImp(tSelect(vis, x2), inDom)))
	st.cells[it.Visited] = tIte(ok, tStore(vis, k, tTrue()), vis)
	v := tSelect(mapVal(o), k)
	f.addHyp(st.pc, tImp(ok, typeFact(v, mt.Elem())))
	f.addHyp(st.pc, typeFact(k, mt.Key()))
	if isPointerLike(mt.Elem()) {
		f.addHyp(st.pc, tImp(ok, tLe(v, st.alloc)))
	}
	// key/value slots may be typed invalid when unused
	return &Tuple{Elems: []Value{ok, k, v}}
}

func (f *Frame) execRunDefers(ins *ssa.RunDefers, st *State) {
	for i := len(f.deferred) - 1; i >= 0; i-- {
		d := f.deferred[i]
		c := f.deferOn[d]
		on, ok := st.cells[c]
		if !ok || on.Op == "false" {
			continue
		}
		// execute the deferred call under guard `on`
		with := st.clone()
		with.pc = tAnd(st.pc, on)
		saved := map[ssa.Value]Value{}
		if tup, ok := f.vals[deferKey{d}].(*Tuple); ok {
			for j, a := range d.Call.Args {
				if _, isConst := a.(*ssa.Const); isConst {
					continue
				}
				if _, isFn := a.(*ssa.Function); isFn {
					continue
				}
				saved[a] = f.vals[a]
				f.vals[a] = tup.Elems[j]
			}
		}
		f.execCallCommon(d, &d.Call, with, false)
		for a, v := range saved {
			f.vals[a] = v
		}
		without := st.clone()
		merged := mergeStates([]inEdge{{with, with.pc}, {without, tAnd(st.pc, tNot(on))}})
		*st = *merged
	}
}

func (f *Frame) atReturn(st *State, ins *ssa.Return) {
	// crash invariants hold at every return
	f.checkCrashInv(st, ins.Pos(), "return")
	// assert_at return#k: site assertions at return statements (locals visible, results bound)
	if f.contract == nil {
		return
	}
	ord := 0
	for _, b := range f.fn.Blocks {
		for _, i2 := range b.Instrs {
			if r, ok := i2.(*ssa.Return); ok {
				ord++
				if r == ins {
					goto found
				}
			}
		}
	}
found:
	for _, c := range f.contract.AssertAt {
		if c.Callee != "return" || (c.Nth != 0 && c.Nth != ord) {
			continue
		}
		env := f.specEnv(st)
		rs := f.fn.Signature.Results()
		for i, r := range ins.Results {
			t := f.asTerm(f.get(r), rs.At(i).Type(), st)
			sv := SV{t: t, typ: rs.At(i).Type()}
			env.names[fmt.Sprintf("result%d", i)] = sv
			if rs.Len() == 1 {
				env.names["result"] = sv
			}
		}
		t, err := env.formula(c.Expr)
		if err != nil {
			f.eng.specError(f.name, c, err)
			continue
		}
		c.Used = true
		f.oblige(st, "assert_at", fmt.Sprintf("%s@return%d", c.Label, ord), c.Props, c.Tags, t, ins.Pos(), c.Text)
	}
}

func (f *Frame) checkCrashInv(st *State, pos token.Pos, where string) {
	if f.contract == nil || len(f.contract.CrashInv) == 0 {
		return
	}
	env := f.specEnv(st)
	for _, c := range f.contract.CrashInv {
		t, err := env.formula(c.Expr)
		if err != nil {
			f.eng.specError(f.name, c, err)
			continue
		}
		f.oblige(st, "crash", c.Label+"@"+where, c.Props, c.Tags, t, pos, c.Text)
	}
}

// realDiv: division by a literal stays linear; by anything else it is an uninterpreted function
// (keeps congruence, drops nonlinear arithmetic the solvers give up on).
var exactRealDiv bool

func realDiv(x, y *Term) *Term {
	if exactRealDiv || strings.HasPrefix(y.Op, "#r") {
		return mk("/", sortReal, x, y)
	}
	return uf("real_div", sortReal, x, y)
}

// fnrefTerm: the value of a named function used as an operand; never nil.
func fnrefTerm(fn *ssa.Function) *Term {
	name := "fnref$" + sanitize(shortName(fn))
	t := uf(name, sortInt)
	addAxiom("fnref_nonnil:"+name, tGt(t, tInt(0)), name)
	return t
}

// loopInvs: the invariants of loop n that apply in this run - invariants that serve only the no-panic sweep (tagged
// [C20] and nothing else) are neither checked nor assumed outside it.
func (f *Frame) loopInvs(n int) []*Clause {
	var out []*Clause
	for _, c := range f.contract.LoopInv[n] {
		if !f.root.safety && len(c.Props) == 1 && c.Props[0] == "C20" {
			continue
		}
		out = append(out, c)
	}
	return out
}
