package main

// Symbolic state: local cells, heap arrays (Burstall), ghost cells, allocation mark, clock.

import (
	"fmt"
	"go/types"
	"sort"
	"strings"

	"golang.org/x/tools/go/ssa"
)

type Value interface{}

type Tuple struct{ Elems []Value }

type Closure struct {
	Fn       *ssa.Function
	Bindings []Value
}

type FuncRef struct{ Fn *ssa.Function }

// RangeIter is the Go-side value of a `range m` over a map.
type RangeIter struct {
	Map     *Term
	MapType *types.Map
	Visited *Cell
	IsStr   bool
	Dom0    *Term // key set of the map when the range statement started
}

type Cell struct {
	id    int
	name  string
	typ   types.Type
	sort  *Sort
	alloc *ssa.Alloc
	ghost bool
}

const (
	stepField = iota
	stepSliceElem
	stepArrayElem
)

type PathStep struct {
	kind  int
	field int
	index *Term
	ctyp  types.Type // container type at this step
}

type Addr struct {
	cell     *Cell
	ref      *Term      // heap base pointer
	base     types.Type // type of object at base
	path     []PathStep
	typ      types.Type // type of addressed location
	detached *Term      // read-only value (no origin)
	global   string     // package-level variable key
	boxKey   string     // private heap of a captured (closure-only) local variable
}

type State struct {
	pc    *Term
	cells map[*Cell]*Term
	heaps map[string]*Term
	ghost map[string]*Term
	epoch int
	alloc *Term
	clock *Term
	dead  bool
}

func (s *State) clone() *State {
	n := &State{pc: s.pc, epoch: s.epoch, alloc: s.alloc, clock: s.clock, dead: s.dead,
		cells: make(map[*Cell]*Term, len(s.cells)), heaps: make(map[string]*Term, len(s.heaps)), ghost: make(map[string]*Term, len(s.ghost))}
	for k, v := range s.cells {
		n.cells[k] = v
	}
	for k, v := range s.heaps {
		n.heaps[k] = v
	}
	for k, v := range s.ghost {
		n.ghost[k] = v
	}
	return n
}

var heapSorts = map[string]*Sort{}

func (s *State) heap(key string) *Term {
	if t, ok := s.heaps[key]; ok {
		return t
	}
	srt, ok := heapSorts[key]
	if !ok {
		panic("heap sort unknown: " + key)
	}
	return sym(fmt.Sprintf("%s@e%d", key, s.epoch), srt)
}

func (s *State) setHeap(key string, t *Term) { s.heaps[key] = t }

// heap keys
func fieldHeapKey(st types.Type, field int) string {
	u := st.Underlying().(*types.Struct)
	key := "H$" + typeKey(st) + "$" + u.Field(field).Name()
	if _, ok := heapSorts[key]; !ok {
		heapSorts[key] = arraySort(sortInt, sortOf(u.Field(field).Type()))
	}
	return key
}

func plainHeapKey(t types.Type) string {
	key := "H$" + typeKey(t)
	if _, ok := heapSorts[key]; !ok {
		heapSorts[key] = arraySort(sortInt, sortOf(t))
	}
	return key
}

func mapHeapKey(m *types.Map) string {
	os := mapObjSort(m)
	// one heap per Go map type (distinct map types cannot alias)
	key := "M$" + typeKey(m)
	if _, ok := heapSorts[key]; !ok {
		heapSorts[key] = arraySort(sortInt, os)
	}
	return key
}

func isStruct(t types.Type) bool {
	if specialSort(t) != nil {
		return false
	}
	_, ok := t.Underlying().(*types.Struct)
	return ok
}

// ---------------------------------------------------------------------------------------------
// load / store through addresses

func (s *State) baseValue(a *Addr) (*Term, []PathStep) {
	if a.detached != nil {
		return a.detached, a.path
	}
	if a.cell != nil {
		v, ok := s.cells[a.cell]
		if !ok {
			// cell not live on this path: unconstrained
			v = fresh("undef_"+a.cell.name, a.cell.sort)
		}
		return v, a.path
	}
	if a.global != "" {
		return s.heapOrGlobal(a), a.path
	}
	// heap
	if isStruct(a.base) {
		if len(a.path) > 0 && a.path[0].kind == stepField {
			key := fieldHeapKey(a.base, a.path[0].field)
			return tSelect(s.heap(key), a.ref), a.path[1:]
		}
		// whole struct
		u := a.base.Underlying().(*types.Struct)
		srt := sortOf(a.base)
		args := make([]*Term, u.NumFields())
		for i := 0; i < u.NumFields(); i++ {
			args[i] = tSelect(s.heap(fieldHeapKey(a.base, i)), a.ref)
		}
		return tCtor(srt, args...), a.path
	}
	return tSelect(s.heap(a.plainKey()), a.ref), a.path
}

func (a *Addr) plainKey() string {
	if a.boxKey != "" {
		if _, ok := heapSorts[a.boxKey]; !ok {
			heapSorts[a.boxKey] = arraySort(sortInt, sortOf(a.base))
		}
		return a.boxKey
	}
	return plainHeapKey(a.base)
}

func (s *State) heapOrGlobal(a *Addr) *Term {
	if t, ok := s.heaps[a.global]; ok {
		return t
	}
	if strings.HasSuffix(a.global, ".init$guard") {
		return tFalse() // only read by package initialisers, which are executed from the un-initialised state
	}
	return sym(a.global, sortOf(a.base))
}

func walkPath(v *Term, path []PathStep) *Term {
	for _, st := range path {
		switch st.kind {
		case stepField:
			v = tField(v, st.field)
		case stepSliceElem:
			v = tSelect(slArr(v), st.index)
		case stepArrayElem:
			v = tSelect(v, st.index)
		}
	}
	return v
}

func updatePath(v *Term, path []PathStep, nv *Term) *Term {
	if len(path) == 0 {
		return nv
	}
	st := path[0]
	switch st.kind {
	case stepField:
		return tWithField(v, st.field, updatePath(tField(v, st.field), path[1:], nv))
	case stepSliceElem:
		arr := slArr(v)
		return mkSlice(v.Sort, tStore(arr, st.index, updatePath(tSelect(arr, st.index), path[1:], nv)), slLen(v), slNN(v))
	case stepArrayElem:
		return tStore(v, st.index, updatePath(tSelect(v, st.index), path[1:], nv))
	}
	panic("updatePath")
}

func (s *State) load(a *Addr) *Term {
	v, rest := s.baseValue(a)
	return walkPath(v, rest)
}

func (s *State) store(a *Addr, nv *Term) error {
	if a.detached != nil {
		return fmt.Errorf("store through detached address")
	}
	if a.cell != nil {
		old, ok := s.cells[a.cell]
		if !ok {
			old = zeroOfSort(a.cell.sort)
		}
		s.cells[a.cell] = updatePath(old, a.path, nv)
		return nil
	}
	if a.global != "" {
		old := s.heapOrGlobal(a)
		s.heaps[a.global] = updatePath(old, a.path, nv)
		return nil
	}
	if isStruct(a.base) {
		if len(a.path) > 0 && a.path[0].kind == stepField {
			key := fieldHeapKey(a.base, a.path[0].field)
			h := s.heap(key)
			old := tSelect(h, a.ref)
			s.setHeap(key, tStore(h, a.ref, updatePath(old, a.path[1:], nv)))
			return nil
		}
		if len(a.path) != 0 {
			return fmt.Errorf("unsupported heap path")
		}
		u := a.base.Underlying().(*types.Struct)
		for i := 0; i < u.NumFields(); i++ {
			key := fieldHeapKey(a.base, i)
			s.setHeap(key, tStore(s.heap(key), a.ref, tField(nv, i)))
		}
		return nil
	}
	key := a.plainKey()
	h := s.heap(key)
	old := tSelect(h, a.ref)
	s.setHeap(key, tStore(h, a.ref, updatePath(old, a.path, nv)))
	return nil
}

// ---------------------------------------------------------------------------------------------
// merging

type inEdge struct {
	st   *State
	cond *Term // full condition of taking this edge (includes source pc)
}

func mergeStates(edges []inEdge) *State {
	var live []inEdge
	for _, e := range edges {
		if e.st != nil && !e.st.dead && e.cond.Op != "false" {
			live = append(live, e)
		}
	}
	if len(live) == 0 {
		return &State{pc: tFalse(), dead: true, cells: map[*Cell]*Term{}, heaps: map[string]*Term{}, ghost: map[string]*Term{}, alloc: tInt(0), clock: tInt(0)}
	}
	if len(live) == 1 {
		n := live[0].st.clone()
		n.pc = live[0].cond
		return n
	}
	n := &State{cells: map[*Cell]*Term{}, heaps: map[string]*Term{}, ghost: map[string]*Term{}}
	var conds []*Term
	for _, e := range live {
		conds = append(conds, e.cond)
	}
	n.pc = tOr(conds...)
	pick := func(get func(s *State) *Term) *Term {
		v := get(live[len(live)-1].st)
		for i := len(live) - 2; i >= 0; i-- {
			v = tIte(live[i].cond, get(live[i].st), v)
		}
		return v
	}
	// epoch: must agree; if not, take max and materialise others
	ep := live[0].st.epoch
	for _, e := range live {
		if e.st.epoch > ep {
			ep = e.st.epoch
		}
	}
	n.epoch = ep
	// cells present in all
	for c := range live[0].st.cells {
		all := true
		for _, e := range live[1:] {
			if _, ok := e.st.cells[c]; !ok {
				all = false
				break
			}
		}
		if all {
			cc := c
			n.cells[c] = pick(func(s *State) *Term { return s.cells[cc] })
		}
	}
	keys := map[string]bool{}
	for _, e := range live {
		for k := range e.st.heaps {
			keys[k] = true
		}
	}
	var ks []string
	for k := range keys {
		ks = append(ks, k)
	}
	sort.Strings(ks)
	for _, k := range ks {
		kk := k
		if strings.HasPrefix(kk, "G$") {
			n.heaps[k] = pick(func(s *State) *Term {
				if t, ok := s.heaps[kk]; ok {
					return t
				}
				return sym(kk, sortTab[globalSorts[kk]])
			})
			continue
		}
		n.heaps[k] = pick(func(s *State) *Term { return s.heap(kk) })
	}
	gk := map[string]bool{}
	for _, e := range live {
		for k := range e.st.ghost {
			gk[k] = true
		}
	}
	for k := range gk {
		kk := k
		n.ghost[k] = pick(func(s *State) *Term { return s.ghost[kk] })
	}
	n.alloc = pick(func(s *State) *Term { return s.alloc })
	n.clock = pick(func(s *State) *Term { return s.clock })
	return n
}

var globalSorts = map[string]string{}
