package main

import (
	"fmt"
	"go/token"
	"go/types"
	"os"
	"sort"
	"strings"

	"golang.org/x/tools/go/packages"
	"golang.org/x/tools/go/ssa"
	"golang.org/x/tools/go/ssa/ssautil"
)

type Engine struct {
	repo          string
	prog          *ssa.Program
	pkgs          []*packages.Package
	db            *SpecDB
	fnByName      map[string]*ssa.Function
	modsets       map[*ssa.Function]*ModSet
	freshCache    map[*ssa.Function]map[ssa.Value]int
	implCache     map[string][]*ssa.Function
	repoTypes     []types.Type
	tags          map[string]int64
	tagTypes      map[int64]types.Type
	boxTypes      map[string]types.Type
	closureByTerm map[*Term]*Closure
	inlineAll     map[string]bool
	specErrors    []string
	pkgByName     map[string]*types.Package
	srcCache      map[string][]string
	globalsSeen   map[string]bool
	errGlobals    []string
	typeByName    map[string]types.Type
	loadSeconds   float64
	boxKeys       map[*Term]string
	initHyps      []*Term
	initNotes     []string
	fvCands       map[string][]*ssa.Function
}

func (e *Engine) specError(fn string, c *Clause, err error) {
	msg := fmt.Sprintf("%s: %s %s: %v", fn, c.Kind, c.Label, err)
	for _, m := range e.specErrors {
		if m == msg {
			return
		}
	}
	e.specErrors = append(e.specErrors, msg)
}

func (e *Engine) sourceLine(file string, line int) string {
	if e.srcCache == nil {
		e.srcCache = map[string][]string{}
	}
	ls, ok := e.srcCache[file]
	if !ok {
		data, err := os.ReadFile(file)
		if err == nil {
			ls = strings.Split(string(data), "\n")
		}
		e.srcCache[file] = ls
	}
	if line-1 < len(ls) && line >= 1 {
		return strings.Join(strings.Fields(ls[line-1]), " ")
	}
	return fmt.Sprintf("line%d", line)
}

func (e *Engine) noteGlobal(key string, t types.Type) {
	if e.globalsSeen[key] {
		return
	}
	e.globalsSeen[key] = true
	if types.Identical(t, types.Universe.Lookup("error").Type()) {
		// package-level error sentinels: non-nil and pairwise distinct (assumed)
		g := sym(key, sortInt)
		addAxiom("sentinel_nonnil_"+key, tGt(g, tInt(0)), key)
		for _, o := range e.errGlobals {
			addAxiom("sentinel_distinct_"+o+"_"+key, tNot(tEq(sym(o, sortInt), g)), key)
		}
		e.errGlobals = append(e.errGlobals, key)
	}
}

func (e *Engine) lookupMethod(t types.Type, m *types.Func) *ssa.Function {
	sel := e.prog.MethodSets.MethodSet(t).Lookup(m.Pkg(), m.Name())
	if sel == nil {
		return nil
	}
	return e.prog.MethodValue(sel)
}

func (e *Engine) lookupTypeByName(name string) types.Type {
	ptr := 0
	for strings.HasPrefix(name, "*") {
		ptr++
		name = name[1:]
	}
	// the import alias used by most of the repository for the go-mysql library (files that import it under another
	// name still need macros written with this one to resolve)
	if strings.HasPrefix(name, "gomysql.") {
		name = "github.com/go-mysql-org/go-mysql/mysql." + strings.TrimPrefix(name, "gomysql.")
	}
	t, ok := e.typeByName[name]
	if !ok {
		return nil
	}
	for i := 0; i < ptr; i++ {
		t = types.NewPointer(t)
	}
	return t
}

func loadEngine(repo string, specDir string) (*Engine, error) {
	cfg := &packages.Config{Mode: packages.LoadAllSyntax, Dir: repo, BuildFlags: []string{"-tags=verif"}}
	pkgs, err := packages.Load(cfg, "./internal/...")
	if err != nil {
		return nil, err
	}
	nerr := 0
	packages.Visit(pkgs, nil, func(p *packages.Package) {
		for _, er := range p.Errors {
			fmt.Fprintln(os.Stderr, "load error:", er)
			nerr++
		}
	})
	if nerr > 0 {
		return nil, fmt.Errorf("%d package load errors", nerr)
	}
	prog, _ := ssautil.AllPackages(pkgs, ssa.NaiveForm|ssa.GlobalDebug|ssa.InstantiateGenerics)
	prog.Build()
	e := &Engine{repo: repo, prog: prog, pkgs: pkgs, db: newSpecDB(), fnByName: map[string]*ssa.Function{},
		modsets: map[*ssa.Function]*ModSet{}, freshCache: map[*ssa.Function]map[ssa.Value]int{}, implCache: map[string][]*ssa.Function{},
		tags: map[string]int64{}, tagTypes: map[int64]types.Type{}, boxTypes: map[string]types.Type{}, closureByTerm: map[*Term]*Closure{},
		inlineAll: map[string]bool{}, boxKeys: map[*Term]string{}, fvCands: map[string][]*ssa.Function{}, pkgByName: map[string]*types.Package{}, globalsSeen: map[string]bool{}, typeByName: map[string]types.Type{}}
	for fn := range ssautil.AllFunctions(prog) {
		e.fnByName[shortName(fn)] = fn
	}
	packages.Visit(pkgs, nil, func(p *packages.Package) {
		if p.Types == nil {
			return
		}
		if _, ok := e.pkgByName[p.Types.Name()]; !ok || strings.HasPrefix(p.PkgPath, "github.com/yandex/mysync") {
			e.pkgByName[p.Types.Name()] = p.Types
		}
		isRepo := strings.HasPrefix(p.PkgPath, "github.com/yandex/mysync")
		sc := p.Types.Scope()
		for _, n := range sc.Names() {
			if tn, ok := sc.Lookup(n).(*types.TypeName); ok {
				short := strings.TrimPrefix(p.PkgPath, modPrefix) + "." + n
				e.typeByName[short] = tn.Type()
				e.typeByName[p.PkgPath+"."+n] = tn.Type()
				if _, dup := e.typeByName[p.Types.Name()+"."+n]; !dup || isRepo {
					e.typeByName[p.Types.Name()+"."+n] = tn.Type()
				}
				if isRepo {
					if !tn.IsAlias() {
						if named, ok := tn.Type().(*types.Named); ok && named.TypeParams().Len() == 0 {
							e.repoTypes = append(e.repoTypes, tn.Type())
							if isStruct(tn.Type()) {
								u := tn.Type().Underlying().(*types.Struct)
								for i := 0; i < u.NumFields(); i++ {
									fieldHeapKey(tn.Type(), i)
								}
							}
						}
					}
				}
			}
		}
	})
	globalBoxKeys = e.boxKeys
	sort.Slice(e.repoTypes, func(i, j int) bool { return e.repoTypes[i].String() < e.repoTypes[j].String() })
	// contracts: guarded comment files in the repo + assumed specs
	if err := e.db.loadDir(repo+"/internal", "verif_contracts*.go", false); err != nil {
		return nil, err
	}
	if err := e.db.loadDir(specDir, "*.spec", true); err != nil {
		return nil, err
	}
	return e, nil
}

// initAxioms translates db axioms into global axioms.
func (e *Engine) initAxioms() {
	dummy := &Frame{eng: e, notes: map[string]bool{}}
	dummy.root = dummy
	st := &State{pc: tTrue(), cells: map[*Cell]*Term{}, heaps: map[string]*Term{}, ghost: map[string]*Term{}, alloc: tInt(0), clock: tInt(0)}
	for _, c := range e.db.Axioms {
		env := &SpecEnv{f: dummy, st: st, old: st, names: map[string]SV{}, bvars: map[string]SV{}}
		t, err := env.formula(c.Expr)
		if err != nil {
			e.specError("<axiom>", c, err)
			continue
		}
		// triggers: spec functions occurring in the axiom
		trig := map[string]bool{}
		collectSyms(t, trig, map[int]bool{})
		var ts []string
		for s := range trig {
			if strings.HasPrefix(s, "sf$") {
				ts = append(ts, s)
			}
		}
		sort.Strings(ts)
		addAxiom("spec:"+c.Label, t, ts...)
	}
}

func collectSyms(t *Term, out map[string]bool, seen map[int]bool) {
	if seen[t.id] {
		return
	}
	seen[t.id] = true
	if strings.HasPrefix(t.Op, "@") || strings.HasPrefix(t.Op, "$") {
		out[t.Op[1:]] = true
	}
	for _, a := range t.Args {
		collectSyms(a, out, seen)
	}
}

func (e *Engine) entryState() *State {
	st := &State{pc: tTrue(), cells: map[*Cell]*Term{}, heaps: map[string]*Term{}, ghost: map[string]*Term{}}
	st.alloc = sym("alloc@0", sortInt)
	st.clock = sym("clock@0", sortInt)
	for _, g := range e.db.GhostOrd {
		gd := e.db.Ghosts[g]
		dummy := &Frame{eng: e, notes: map[string]bool{}}
		dummy.root = dummy
		srt, _, err := specSort(gd.Type, &SpecEnv{f: dummy})
		if err != nil {
			e.specErrors = append(e.specErrors, "ghost "+g+": "+err.Error())
			continue
		}
		st.ghost[g] = sym("gh$"+g+"@0", srt)
	}
	return st
}

// verifyFunction generates all obligations of one function under contract.
func (e *Engine) verifyFunction(fn *ssa.Function, safety bool) (fr *Frame, err error) {
	defer func() {
		if r := recover(); r != nil {
			err = fmt.Errorf("engine failure in %s: %v", shortName(fn), r)
		}
	}()
	if len(fn.Blocks) == 0 {
		return nil, fmt.Errorf("%s has no body", shortName(fn))
	}
	f := e.newFrame(fn, nil)
	f.safety = safety
	exactRealDiv = f.contract != nil && f.contract.Opts["realdiv"] == "exact"
	defer func() { exactRealDiv = false }()
	st := e.entryState()
	f.addHyp(tTrue(), tAnd(tGe(st.alloc, tInt(0)), tGe(st.clock, tInt(0))))
	f.hyps = append(f.hyps, e.initHyps...)
	for _, n := range e.initNotes {
		f.notes[n] = true
	}
	var args []Value
	for _, p := range fn.Params {
		v := sym("p$"+p.Name(), sortOf(p.Type()))
		f.addHyp(tTrue(), typeFact(v, p.Type()))
		if isPointerLike(p.Type()) {
			f.addHyp(tTrue(), tLe(v, st.alloc))
		}
		args = append(args, v)
	}
	var bindings []Value
	var prev []*Term
	for _, fv := range fn.FreeVars {
		v := sym("fv$"+fv.Name(), sortInt)
		f.addHyp(tTrue(), tAnd(tGt(v, tInt(0)), tLe(v, st.alloc)))
		for _, o := range prev {
			f.addHyp(tTrue(), tNot(tEq(v, o)))
		}
		prev = append(prev, v)
		bindings = append(bindings, v)
		if bk := staticBoxKey(fv); bk != "" {
			e.boxKeys[v] = bk
		}
	}
	f.args = args
	for i, p := range fn.Params {
		f.vals[p] = args[i]
	}
	for i, fv := range fn.FreeVars {
		f.vals[fv] = bindings[i]
	}
	f.entry = st.clone()
	if safety {
		e.assumeTypeInvs(f, st)
	}
	c := f.contract
	if c != nil {
		env := f.requiresEnv(st)
		for _, r := range c.Requires {
			if !safety && hasTag(r.Tags, "safety") && strings.HasPrefix(r.Label, "c20") {
				// preconditions written for the no-panic sweep only: not needed (and not assumed) elsewhere - keeps
				// the other properties' queries free of the sweep's quantified registry / state facts
				continue
			}
			t, err := env.formula(r.Expr)
			if err != nil {
				e.specError(f.name, r, err)
				continue
			}
			f.addHyp(tTrue(), t)
		}
	}
	nh := len(f.hyps)
	exit, results := f.run(st, args, bindings)
	f.exitResults = results
	// vacuity: the preconditions + type facts must be satisfiable
	vo := &Obligation{ID: f.name + "#vacuity:requires", Fn: f.name, Kind: "vacuity", Label: "requires", Goal: tFalse(), PC: tTrue(), ctx: f, nHyps: nh, Cover: true, Text: "preconditions satisfiable"}
	vo.Props = f.supportProps()
	f.obls = append(f.obls, vo)
	if exit != nil && c != nil {
		env := f.ensuresEnv(exit, results)
		for _, en := range c.Ensures {
			t, err := env.formula(en.Expr)
			if err != nil {
				e.specError(f.name, en, err)
				continue
			}
			if c.Assumed && !hasTag(en.Tags, "checked") {
				// partial contract: an assumed boundary contract of which only the clauses tagged [checked] (and the
				// assert_at clauses) are verified against the body
				continue
			}
			if c.Flags["defines"] {
				// definitional clause: the function's result defines an uninterpreted spec relation (determinism assumed)
				f.notes["definitional contract (the function defines the spec relation; determinism in the argument contents assumed): "+f.name] = true
				continue
			}
			f.oblige(exit, "post", en.Label, en.Props, en.Tags, t, fn.Pos(), en.Text)
		}
		// parallel-append discipline (parelem): the instance only appends, and what it appends satisfies the predicate
		for _, pe := range c.ParElem {
			var newv, oldv SV
			ok1 := false
			for _, fv := range fn.FreeVars {
				if fv.Name() != pe.Callee {
					continue
				}
				et := derefType(fv.Type())
				if r, ok := f.vals[fv].(*Term); ok && et != nil {
					a := refAddr(r, et)
					newv = SV{t: exit.load(a), typ: et}
					oldv = SV{t: f.entry.load(a), typ: et}
					ok1 = true
				}
			}
			if !ok1 {
				e.specError(f.name, pe, fmt.Errorf("captured slice %s not found", pe.Callee))
				continue
			}
			sl, isSl := newv.typ.Underlying().(*types.Slice)
			if !isSl {
				e.specError(f.name, pe, fmt.Errorf("%s is not a slice", pe.Callee))
				continue
			}
			bi, i := freshBVar("i", sortInt)
			n2 := *env
			n2.names = map[string]SV{}
			for k, v := range env.names {
				n2.names[k] = v
			}
			n2.names[pe.Label] = SV{t: tSelect(slArr(newv.t), i), typ: sl.Elem()}
			pred, err := n2.formula(pe.Expr)
			if err != nil {
				e.specError(f.name, pe, err)
				continue
			}
			goal := tAnd(tGe(slLen(newv.t), slLen(oldv.t)),
				mkQuant("forall", []BVar{bi}, tAnd(
					tImp(tAnd(tLe(tInt(0), i), tLt(i, slLen(oldv.t))), tEq(tSelect(slArr(newv.t), i), tSelect(slArr(oldv.t), i))),
					tImp(tAnd(tLe(slLen(oldv.t), i), tLt(i, slLen(newv.t))), pred))))
			f.oblige(exit, "post", "parelem."+pe.Callee, sp0(f), nil, goal, fn.Pos(), pe.Text)
		}
		co := &Obligation{ID: f.name + "#cover:return", Fn: f.name, Kind: "cover", Label: "return", Goal: tNot(exit.pc), PC: tTrue(), ctx: f, nHyps: len(f.hyps), Cover: true, Text: "some return is reachable"}
		co.Props = f.supportProps()
		f.obls = append(f.obls, co)
	}
	if c != nil {
		// unused assert_at clauses = stale contract
		for _, a := range c.AssertAt {
			if !a.Used {
				e.specError(f.name, a, fmt.Errorf("call site %s#%d not found (stale contract)", a.Callee, a.Nth))
			}
		}
		for n := range c.LoopInv {
			if n > len(f.loops) {
				e.specError(f.name, c.LoopInv[n][0], fmt.Errorf("loop %d does not exist (function has %d loops)", n, len(f.loops)))
			}
		}
	}
	// default props for supporting obligations
	sp := f.supportProps()
	for _, o := range f.obls {
		if len(o.Props) == 0 && o.Kind != "safety" {
			o.Props = sp
		}
	}
	// frame check (syntactic)
	if c != nil && c.HasMod && !c.Assumed {
		inf := e.modSetOf(fn)
		decl := newModSet()
		e.contractMods(&Contract{Modifies: c.Modifies, Havocs: c.Havocs, HasMod: true}, nil, decl)
		var bad []string
		for k, v := range inf.heaps {
			if v >= modPFresh && decl.heaps[k] < modAny {
				bad = append(bad, k)
			}
		}
		for g := range inf.ghosts {
			if !decl.ghosts[g] {
				bad = append(bad, "ghost:"+g)
			}
		}
		sort.Strings(bad)
		o := &Obligation{ID: f.name + "#frame:modifies", Fn: f.name, Kind: "frame", Label: "modifies", Props: sp, ctx: f, Goal: tTrue(), PC: tTrue(), Text: "inferred writes are within the declared modifies clause"}
		if len(bad) == 0 {
			o.Static = "ok"
		} else {
			o.Static = "fail: writes outside modifies: " + strings.Join(bad, ", ")
		}
		f.obls = append(f.obls, o)
	}
	return f, nil
}

// lemma obligations
func (e *Engine) lemmaObligations() []*Obligation {
	dummy := &Frame{eng: e, notes: map[string]bool{}, name: "<lemma>", oblSeen: map[string]int{}}
	dummy.root = dummy
	st := &State{pc: tTrue(), cells: map[*Cell]*Term{}, heaps: map[string]*Term{}, ghost: map[string]*Term{}, alloc: tInt(0), clock: tInt(0)}
	var out []*Obligation
	for _, c := range e.db.Lemmas {
		env := &SpecEnv{f: dummy, st: st, old: st, names: map[string]SV{}, bvars: map[string]SV{}}
		t, err := env.formula(c.Expr)
		if err != nil {
			e.specError("<lemma>", c, err)
			continue
		}
		out = append(out, &Obligation{ID: "lemma:" + c.Label, Fn: "<lemma>", Kind: "lemma", Label: c.Label, Props: c.Props, Goal: t, PC: tTrue(), ctx: dummy, nHyps: len(dummy.hyps), Text: c.Text})
	}
	return out
}

var _ = token.NoPos

func sp0(f *Frame) []string { return f.supportProps() }
