package main

// Contract files: structured `//@` comments (in /repo/internal/**/verif_contracts.go, build tag verif)
// and assumed specs (/verif/specs/*.spec, same syntax without the comment prefix requirement).

import (
	"fmt"
	"os"
	"path/filepath"
	"regexp"
	"sort"
	"strconv"
	"strings"
)

type Clause struct {
	Kind   string // requires ensures invariant decreases assert_at crash_invariant lemma axiom
	Label  string
	Props  []string
	Tags   []string // e.g. safety
	Text   string
	Expr   *Expr
	Loop   int    // for loop clauses (1-based ordinal)
	Callee string // assert_at
	Nth    int    // assert_at k (1-based); 0 = every
	File   string
	Line   int
	After  bool // assert_at evaluated after the call returns (assert_after)
	Used   bool
}

type Contract struct {
	Func       string
	Flags      map[string]bool // assumed inline pure trusted sweep nopanic
	Requires   []*Clause
	Ensures    []*Clause
	LoopInv    map[int][]*Clause
	LoopDec    map[int]*Clause
	Decreases  *Clause
	AssertAt   []*Clause
	CrashInv   []*Clause
	Modifies   []string // ghost names or heap keys; "*" = everything
	HasMod     bool
	Havocs     []string
	Writes     []string // parameters whose pointee is overwritten (havoc at that reference only)
	ParElem    []*Clause // parallel-append discipline on a captured slice: Callee=var, Label=element name
	File       string
	Line       int
	Assumed    bool
	ResultName []string
	Fresh      bool // results are freshly allocated
	Opts       map[string]string
}

type MacroDef struct {
	Name   string
	Params []Binder
	Body   *Expr
	Ret    string
}

type UFuncDef struct {
	Name   string
	Params []string // spec type names
	Ret    string
}

type GhostDef struct {
	Name     string
	Type     string
	Monotone bool // integer ghost that the environment model never decreases
}

type SpecDB struct {
	Contracts map[string]*Contract
	Macros    map[string]*MacroDef
	UFuncs    map[string]*UFuncDef
	Ghosts    map[string]*GhostDef
	GhostOrd  []string
	Axioms    []*Clause
	Lemmas    []*Clause
	Files     []string
	TypeInvs  []*TypeInv
}

// TypeInv: `typeinv <*pkg.T> <macro> init <fn>, <fn>...` - the one-argument macro is an invariant of every non-nil value
// of the pointer type once the listed initialisers have run; the fields it reads are written only by those functions
// (checked), so it is assumed for receivers, parameters and captured variables of that type in the C20 sweep.
type TypeInv struct {
	Type  string
	Macro string
	Init  []string
	File  string
	Line  int
}

func newSpecDB() *SpecDB {
	return &SpecDB{Contracts: map[string]*Contract{}, Macros: map[string]*MacroDef{}, UFuncs: map[string]*UFuncDef{}, Ghosts: map[string]*GhostDef{}}
}

var labelRe = regexp.MustCompile(`^([A-Za-z_][A-Za-z0-9_.\-]*)\s*(\[[^\]]*\])?\s*:\s*(.*)$`)

func (db *SpecDB) loadDir(dir string, pattern string, assumed bool) error {
	var files []string
	filepath.Walk(dir, func(p string, info os.FileInfo, err error) error {
		if err != nil || info.IsDir() {
			return nil
		}
		if ok, _ := filepath.Match(pattern, filepath.Base(p)); ok {
			files = append(files, p)
		}
		return nil
	})
	sort.Strings(files)
	for _, f := range files {
		if err := db.loadFile(f, assumed); err != nil {
			return err
		}
	}
	return nil
}

func (db *SpecDB) loadFile(path string, assumed bool) error {
	data, err := os.ReadFile(path)
	if err != nil {
		return err
	}
	db.Files = append(db.Files, path)
	type rawLine struct {
		text string
		line int
	}
	var lines []rawLine
	for i, l := range strings.Split(string(data), "\n") {
		t := strings.TrimSpace(l)
		if strings.HasPrefix(t, "//@") {
			t = strings.TrimPrefix(t, "//@")
		} else if strings.HasSuffix(path, ".spec") {
			if strings.HasPrefix(t, "#") || strings.HasPrefix(t, "//") {
				continue
			}
		} else {
			continue
		}
		if strings.TrimSpace(t) == "" {
			continue
		}
		if strings.HasPrefix(strings.TrimSpace(t), "--") {
			continue
		}
		lines = append(lines, rawLine{t, i + 1})
	}
	// join continuation lines: a line whose first word is not a keyword continues the previous one
	kw := map[string]bool{"func": true, "requires": true, "ensures": true, "modifies": true, "havocs": true, "loop": true, "decreases": true,
		"assert_at": true, "assert_after": true, "writes": true, "parelem": true, "crash_invariant": true, "flags": true, "ghost": true, "define": true, "ufunc": true, "axiom": true, "lemma": true, "opt": true, "typeinv": true}
	var joined []rawLine
	for _, l := range lines {
		w := strings.Fields(l.text)
		if len(w) > 0 && kw[w[0]] {
			joined = append(joined, rawLine{strings.TrimSpace(l.text), l.line})
		} else if len(joined) > 0 {
			joined[len(joined)-1].text += " " + strings.TrimSpace(l.text)
		} else {
			return fmt.Errorf("%s:%d: stray spec line", path, l.line)
		}
	}
	var cur *Contract
	for _, l := range joined {
		w := strings.Fields(l.text)
		rest := strings.TrimSpace(strings.TrimPrefix(l.text, w[0]))
		fail := func(msg string) error { return fmt.Errorf("%s:%d: %s: %s", path, l.line, msg, l.text) }
		parseLabeled := func(kind string, s string) (*Clause, error) {
			m := labelRe.FindStringSubmatch(s)
			if m == nil {
				return nil, fail("expected '<label> [props]: expr'")
			}
			c := &Clause{Kind: kind, Label: m[1], Text: m[3], File: path, Line: l.line}
			if m[2] != "" {
				for _, p := range strings.Split(strings.Trim(m[2], "[]"), ",") {
					p = strings.TrimSpace(p)
					if p == "" {
						continue
					}
					if regexp.MustCompile(`^C[0-9]+$`).MatchString(p) {
						c.Props = append(c.Props, p)
					} else {
						c.Tags = append(c.Tags, p)
					}
				}
			}
			e, err := parseExpr(m[3])
			if err != nil {
				return nil, fail(err.Error())
			}
			c.Expr = e
			return c, nil
		}
		switch w[0] {
		case "ghost":
			if len(w) < 3 {
				return fail("ghost <name> <type>")
			}
			if _, ok := db.Ghosts[w[1]]; !ok {
				db.GhostOrd = append(db.GhostOrd, w[1])
			}
			gd := &GhostDef{Name: w[1]}
			for _, x := range w[2:] {
				if x == "monotone" {
					gd.Monotone = true
				} else {
					gd.Type += x
				}
			}
			db.Ghosts[w[1]] = gd
			cur = nil
		case "ufunc":
			// ufunc name(T1,T2) R
			m := regexp.MustCompile(`^([A-Za-z_][A-Za-z0-9_]*)\(([^)]*)\)\s*(\S+)$`).FindStringSubmatch(rest)
			if m == nil {
				return fail("ufunc name(T,...) R")
			}
			u := &UFuncDef{Name: m[1], Ret: m[3]}
			for _, p := range strings.Split(m[2], ",") {
				p = strings.TrimSpace(p)
				if p != "" {
					f := strings.Fields(p)
					u.Params = append(u.Params, f[len(f)-1])
				}
			}
			db.UFuncs[u.Name] = u
			cur = nil
		case "typeinv":
			parts := strings.SplitN(rest, " init ", 2)
			hd := strings.Fields(parts[0])
			if len(hd) != 2 {
				return fail("typeinv <type> <macro> [init fn, fn]")
			}
			ti := &TypeInv{Type: hd[0], Macro: hd[1], File: path, Line: l.line}
			if len(parts) == 2 {
				for _, fn := range strings.Split(parts[1], ",") {
					if fn = strings.TrimSpace(fn); fn != "" {
						ti.Init = append(ti.Init, fn)
					}
				}
			}
			db.TypeInvs = append(db.TypeInvs, ti)
			cur = nil
		case "define":
			// define name(p T, q T) = expr
			i := strings.Index(rest, "=")
			for i >= 0 && i+1 < len(rest) && (rest[i+1] == '=' || (i > 0 && strings.ContainsRune("<>=!", rune(rest[i-1])))) {
				j := strings.Index(rest[i+2:], "=")
				if j < 0 {
					i = -1
					break
				}
				i = i + 2 + j
			}
			if i < 0 {
				return fail("define name(params) = expr")
			}
			head, body := strings.TrimSpace(rest[:i]), strings.TrimSpace(rest[i+1:])
			m := regexp.MustCompile(`^([A-Za-z_][A-Za-z0-9_]*)\((.*)\)$`).FindStringSubmatch(head)
			if m == nil {
				return fail("define head")
			}
			md := &MacroDef{Name: m[1]}
			for _, p := range splitTop(m[2], ',') {
				p = strings.TrimSpace(p)
				if p == "" {
					continue
				}
				f := strings.Fields(p)
				b := Binder{Name: f[0]}
				if len(f) > 1 {
					b.Type = strings.Join(f[1:], "")
				}
				md.Params = append(md.Params, b)
			}
			e, err := parseExpr(body)
			if err != nil {
				return fail(err.Error())
			}
			md.Body = e
			db.Macros[md.Name] = md
			cur = nil
		case "axiom", "lemma":
			c, err := parseLabeled(w[0], rest)
			if err != nil {
				return err
			}
			if w[0] == "axiom" {
				db.Axioms = append(db.Axioms, c)
			} else {
				db.Lemmas = append(db.Lemmas, c)
			}
			cur = nil
		case "func":
			name := strings.TrimSpace(rest)
			if prev, ok := db.Contracts[name]; ok {
				cur = prev
				if assumed {
					cur.Assumed = true
				}
			} else {
				cur = &Contract{Func: name, Flags: map[string]bool{}, LoopInv: map[int][]*Clause{}, LoopDec: map[int]*Clause{}, File: path, Line: l.line, Assumed: assumed, Opts: map[string]string{}}
				db.Contracts[name] = cur
			}
		default:
			if cur == nil {
				return fail("clause outside func")
			}
			switch w[0] {
			case "flags":
				for _, f := range strings.FieldsFunc(rest, func(r rune) bool { return r == ',' || r == ' ' || r == ':' }) {
					cur.Flags[f] = true
				}
			case "opt":
				kv := strings.SplitN(rest, "=", 2)
				if len(kv) != 2 {
					return fail("opt k=v")
				}
				cur.Opts[strings.TrimSpace(kv[0])] = strings.TrimSpace(kv[1])
			case "modifies":
				cur.HasMod = true
				for _, f := range strings.FieldsFunc(rest, func(r rune) bool { return r == ',' || r == ' ' }) {
					if f != "nothing" {
						cur.Modifies = append(cur.Modifies, f)
					}
				}
			case "havocs":
				for _, f := range strings.FieldsFunc(rest, func(r rune) bool { return r == ',' || r == ' ' }) {
					cur.Havocs = append(cur.Havocs, f)
				}
			case "parelem":
				// parelem <captured slice var> <elem name>: predicate(host param, elem)
				if len(w) < 4 {
					return fail("parelem <var> <elem>: expr")
				}
				i := strings.Index(rest, ":")
				if i < 0 {
					return fail("parelem <var> <elem>: expr")
				}
				e, err := parseExpr(strings.TrimSpace(rest[i+1:]))
				if err != nil {
					return fail(err.Error())
				}
				cur.ParElem = append(cur.ParElem, &Clause{Kind: "parelem", Callee: w[1], Label: strings.TrimSuffix(w[2], ":"), Text: rest, Expr: e, File: path, Line: l.line})
			case "writes":
				for _, f := range strings.FieldsFunc(rest, func(r rune) bool { return r == ',' || r == ' ' }) {
					cur.Writes = append(cur.Writes, f)
				}
			case "requires", "ensures", "crash_invariant":
				c, err := parseLabeled(w[0], rest)
				if err != nil {
					return err
				}
				switch w[0] {
				case "requires":
					cur.Requires = append(cur.Requires, c)
				case "ensures":
					cur.Ensures = append(cur.Ensures, c)
				default:
					cur.CrashInv = append(cur.CrashInv, c)
				}
			case "decreases":
				e, err := parseExpr(rest)
				if err != nil {
					return fail(err.Error())
				}
				cur.Decreases = &Clause{Kind: "decreases", Label: "decreases", Text: rest, Expr: e, File: path, Line: l.line}
			case "loop":
				// loop N invariant label: expr | loop N decreases expr
				if len(w) < 3 {
					return fail("loop N invariant|decreases ...")
				}
				n, err := strconv.Atoi(w[1])
				if err != nil {
					return fail("loop ordinal")
				}
				r2 := strings.TrimSpace(strings.TrimPrefix(strings.TrimSpace(strings.TrimPrefix(rest, w[1])), w[2]))
				if w[2] == "invariant" {
					c, err := parseLabeled("invariant", r2)
					if err != nil {
						return err
					}
					c.Loop = n
					cur.LoopInv[n] = append(cur.LoopInv[n], c)
				} else if w[2] == "decreases" {
					e, err := parseExpr(r2)
					if err != nil {
						return fail(err.Error())
					}
					cur.LoopDec[n] = &Clause{Kind: "decreases", Label: fmt.Sprintf("loop%d.decreases", n), Text: r2, Expr: e, Loop: n, File: path, Line: l.line}
				} else {
					return fail("loop clause kind")
				}
			case "assert_at", "assert_after":
				// assert_at callee#k label [props]: expr
				if len(w) < 3 {
					return fail("assert_at callee#k label: expr")
				}
				site := w[1]
				r2 := strings.TrimSpace(strings.TrimPrefix(rest, site))
				c, err := parseLabeled("assert_at", r2)
				if err != nil {
					return err
				}
				c.After = w[0] == "assert_after"
				if i := strings.LastIndex(site, "#"); i >= 0 {
					c.Callee = site[:i]
					if site[i+1:] == "*" {
						c.Nth = 0
					} else {
						c.Nth, err = strconv.Atoi(site[i+1:])
						if err != nil {
							return fail("assert_at ordinal")
						}
					}
				} else {
					c.Callee = site
					c.Nth = 0
				}
				cur.AssertAt = append(cur.AssertAt, c)
			default:
				return fail("unknown clause")
			}
		}
	}
	return nil
}

func splitTop(s string, sep rune) []string {
	var out []string
	depth := 0
	last := 0
	for i, r := range s {
		switch r {
		case '(', '[':
			depth++
		case ')', ']':
			depth--
		default:
			if r == sep && depth == 0 {
				out = append(out, s[last:i])
				last = i + 1
			}
		}
	}
	out = append(out, s[last:])
	return out
}

// ---------------------------------------------------------------------------------------------
// expressions

type Binder struct {
	Name string
	Type string
}

type Expr struct {
	Kind    string // ident int real str bool nil unary binary call index field slice forall exists old cond
	Name    string // ident / field name / operator / call name
	Args    []*Expr
	Binders []Binder
	Pats    [][]*Expr // explicit instantiation patterns of a forall: forall x T :: {p1, p2} {p3} body
}

func (e *Expr) String() string {
	switch e.Kind {
	case "ident", "int", "real", "bool", "nil":
		return e.Name
	case "str":
		return strconv.Quote(e.Name)
	case "unary":
		return e.Name + e.Args[0].String()
	case "binary":
		return "(" + e.Args[0].String() + " " + e.Name + " " + e.Args[1].String() + ")"
	case "call":
		var as []string
		for _, a := range e.Args {
			as = append(as, a.String())
		}
		return e.Name + "(" + strings.Join(as, ", ") + ")"
	case "index":
		return e.Args[0].String() + "[" + e.Args[1].String() + "]"
	case "field":
		return e.Args[0].String() + "." + e.Name
	case "old":
		return "old(" + e.Args[0].String() + ")"
	case "cond":
		return "(" + e.Args[0].String() + " ? " + e.Args[1].String() + " : " + e.Args[2].String() + ")"
	case "count":
		return "count(" + e.Binders[0].Name + " " + e.Binders[0].Type + " in " + e.Args[0].String() + " :: " + e.Args[1].String() + ")"
	case "forall", "exists":
		var bs []string
		for _, b := range e.Binders {
			bs = append(bs, b.Name+" "+b.Type)
		}
		return "(" + e.Kind + " " + strings.Join(bs, ", ") + " :: " + e.Args[0].String() + ")"
	}
	return "?" + e.Kind
}

type tok struct {
	kind string // id int real str op eof
	text string
}

func lex(s string) ([]tok, error) {
	var out []tok
	i := 0
	for i < len(s) {
		c := s[i]
		switch {
		case c == ' ' || c == '\t':
			i++
		case c >= '0' && c <= '9':
			j := i
			isReal := false
			for j < len(s) && (s[j] >= '0' && s[j] <= '9' || s[j] == '_') {
				j++
			}
			if j+1 < len(s) && s[j] == '.' && s[j+1] >= '0' && s[j+1] <= '9' {
				isReal = true
				j++
				for j < len(s) && s[j] >= '0' && s[j] <= '9' {
					j++
				}
			}
			txt := strings.ReplaceAll(s[i:j], "_", "")
			if isReal {
				out = append(out, tok{"real", txt})
			} else {
				out = append(out, tok{"int", txt})
			}
			i = j
		case c == '"':
			j := i + 1
			for j < len(s) && s[j] != '"' {
				if s[j] == '\\' {
					j++
				}
				j++
			}
			if j >= len(s) {
				return nil, fmt.Errorf("unterminated string")
			}
			v, err := strconv.Unquote(s[i : j+1])
			if err != nil {
				return nil, err
			}
			out = append(out, tok{"str", v})
			i = j + 1
		case c == '_' || c >= 'a' && c <= 'z' || c >= 'A' && c <= 'Z':
			j := i
			for j < len(s) && (s[j] == '_' || s[j] == '$' || s[j] >= 'a' && s[j] <= 'z' || s[j] >= 'A' && s[j] <= 'Z' || s[j] >= '0' && s[j] <= '9') {
				j++
			}
			out = append(out, tok{"id", s[i:j]})
			i = j
		default:
			ops := []string{"<==>", "==>", "::", "&&", "||", "==", "!=", "<=", ">=", "<", ">", "+", "-", "*", "/", "%", "!", "(", ")", "[", "]", ",", ".", "?", ":", "{", "}"}
			matched := false
			for _, op := range ops {
				if strings.HasPrefix(s[i:], op) {
					out = append(out, tok{"op", op})
					i += len(op)
					matched = true
					break
				}
			}
			if !matched {
				return nil, fmt.Errorf("unexpected character %q at %d", c, i)
			}
		}
	}
	out = append(out, tok{"eof", ""})
	return out, nil
}

type parser struct {
	toks []tok
	pos  int
}

func parseExpr(s string) (*Expr, error) {
	toks, err := lex(s)
	if err != nil {
		return nil, err
	}
	p := &parser{toks: toks}
	e, err := p.expr(0)
	if err != nil {
		return nil, err
	}
	if p.peek().kind != "eof" {
		return nil, fmt.Errorf("trailing tokens at %q", p.peek().text)
	}
	return e, nil
}

func (p *parser) peek() tok { return p.toks[p.pos] }
func (p *parser) next() tok { t := p.toks[p.pos]; p.pos++; return t }
func (p *parser) isOp(s string) bool {
	t := p.peek()
	return t.kind == "op" && t.text == s
}
func (p *parser) expect(s string) error {
	if !p.isOp(s) {
		return fmt.Errorf("expected %q, got %q", s, p.peek().text)
	}
	p.pos++
	return nil
}

var binPrec = map[string]int{"<==>": 1, "==>": 2, "||": 3, "&&": 4, "==": 5, "!=": 5, "<": 5, "<=": 5, ">": 5, ">=": 5, "+": 6, "-": 6, "*": 7, "/": 7, "%": 7}

func (p *parser) expr(minPrec int) (*Expr, error) {
	lhs, err := p.unary()
	if err != nil {
		return nil, err
	}
	for {
		t := p.peek()
		if t.kind != "op" {
			break
		}
		if t.text == "?" && minPrec == 0 {
			p.next()
			a, err := p.expr(0)
			if err != nil {
				return nil, err
			}
			if err := p.expect(":"); err != nil {
				return nil, err
			}
			b, err := p.expr(0)
			if err != nil {
				return nil, err
			}
			lhs = &Expr{Kind: "cond", Args: []*Expr{lhs, a, b}}
			continue
		}
		prec, ok := binPrec[t.text]
		if !ok || prec < minPrec {
			break
		}
		p.next()
		nextMin := prec + 1
		if t.text == "==>" {
			nextMin = prec // right assoc
		}
		var rhs *Expr
		// a quantifier on the right of a binary operator extends as far as possible
		rhs, err = p.expr(nextMin)
		if err != nil {
			return nil, err
		}
		// chained comparison a <= b < c
		if prec == 5 && p.peek().kind == "op" && binPrec[p.peek().text] == 5 && (t.text == "<" || t.text == "<=") {
			op2 := p.next().text
			rhs2, err := p.expr(6)
			if err != nil {
				return nil, err
			}
			lhs = &Expr{Kind: "binary", Name: "&&", Args: []*Expr{
				{Kind: "binary", Name: t.text, Args: []*Expr{lhs, rhs}},
				{Kind: "binary", Name: op2, Args: []*Expr{rhs, rhs2}}}}
			continue
		}
		lhs = &Expr{Kind: "binary", Name: t.text, Args: []*Expr{lhs, rhs}}
	}
	return lhs, nil
}

func (p *parser) unary() (*Expr, error) {
	t := p.peek()
	if t.kind == "op" && (t.text == "!" || t.text == "-") {
		p.next()
		a, err := p.unary()
		if err != nil {
			return nil, err
		}
		return &Expr{Kind: "unary", Name: t.text, Args: []*Expr{a}}, nil
	}
	if t.kind == "id" && (t.text == "forall" || t.text == "exists") {
		p.next()
		var bs []Binder
		for {
			n := p.next()
			if n.kind != "id" {
				return nil, fmt.Errorf("binder name expected")
			}
			ty, err := p.typeName()
			if err != nil {
				return nil, err
			}
			bs = append(bs, Binder{n.text, ty})
			if p.isOp(",") {
				p.next()
				continue
			}
			break
		}
		if err := p.expect("::"); err != nil {
			return nil, err
		}
		var pats [][]*Expr
		for p.isOp("{") {
			p.next()
			var grp []*Expr
			for {
				pe, err := p.expr(0)
				if err != nil {
					return nil, err
				}
				grp = append(grp, pe)
				if p.isOp(",") {
					p.next()
					continue
				}
				break
			}
			if err := p.expect("}"); err != nil {
				return nil, err
			}
			pats = append(pats, grp)
		}
		body, err := p.expr(0)
		if err != nil {
			return nil, err
		}
		return &Expr{Kind: t.text, Binders: bs, Args: []*Expr{body}, Pats: pats}, nil
	}
	return p.postfix()
}

// typeName: int | string | bool | real | ref | []T | *pkg.T | pkg.T | map[K]V
func (p *parser) typeName() (string, error) {
	var sb strings.Builder
	for {
		t := p.peek()
		if t.kind == "op" && (t.text == "*" || t.text == "[" || t.text == "]" || t.text == ".") {
			sb.WriteString(t.text)
			p.next()
			continue
		}
		if t.kind == "id" {
			sb.WriteString(t.text)
			p.next()
			if p.isOp(".") || p.isOp("]") || ((t.text == "set" || t.text == "seq" || t.text == "map") && p.isOp("[")) {
				continue
			}
			// map[K]V: after ']' comes V
			break
		}
		break
	}
	s := sb.String()
	if s == "" {
		return "", fmt.Errorf("type expected")
	}
	// map[K]V needs the V part
	if strings.HasPrefix(s, "map[") && strings.HasSuffix(s, "]") {
		v, err := p.typeName()
		if err != nil {
			return "", err
		}
		s += v
	}
	return s, nil
}

func (p *parser) postfix() (*Expr, error) {
	e, err := p.primary()
	if err != nil {
		return nil, err
	}
	for {
		if p.isOp(".") {
			p.next()
			n := p.next()
			if n.kind != "id" {
				return nil, fmt.Errorf("field name expected")
			}
			e = &Expr{Kind: "field", Name: n.text, Args: []*Expr{e}}
			continue
		}
		if p.isOp("[") {
			p.next()
			idx, err := p.expr(0)
			if err != nil {
				return nil, err
			}
			if err := p.expect("]"); err != nil {
				return nil, err
			}
			e = &Expr{Kind: "index", Args: []*Expr{e, idx}}
			continue
		}
		break
	}
	return e, nil
}

func (p *parser) primary() (*Expr, error) {
	t := p.next()
	switch t.kind {
	case "int":
		return &Expr{Kind: "int", Name: t.text}, nil
	case "real":
		return &Expr{Kind: "real", Name: t.text}, nil
	case "str":
		return &Expr{Kind: "str", Name: t.text}, nil
	case "id":
		switch t.text {
		case "true", "false":
			return &Expr{Kind: "bool", Name: t.text}, nil
		case "nil":
			return &Expr{Kind: "nil", Name: "nil"}, nil
		}
		if t.text == "count" && p.isOp("(") && p.toks[p.pos+1].kind == "id" && p.toks[p.pos+2].kind == "id" {
			// count(k T in S :: body)
			p.next()
			name := p.next().text
			ty, err := p.typeName()
			if err != nil {
				return nil, err
			}
			if in := p.next(); in.kind != "id" || in.text != "in" {
				return nil, fmt.Errorf("count(k T in S :: body): 'in' expected")
			}
			set, err := p.expr(0)
			if err != nil {
				return nil, err
			}
			if err := p.expect("::"); err != nil {
				return nil, err
			}
			body, err := p.expr(0)
			if err != nil {
				return nil, err
			}
			if err := p.expect(")"); err != nil {
				return nil, err
			}
			return &Expr{Kind: "count", Binders: []Binder{{name, ty}}, Args: []*Expr{set, body}}, nil
		}
		if p.isOp("(") {
			p.next()
			var args []*Expr
			if !p.isOp(")") {
				for {
					a, err := p.expr(0)
					if err != nil {
						return nil, err
					}
					args = append(args, a)
					if p.isOp(",") {
						p.next()
						continue
					}
					break
				}
			}
			if err := p.expect(")"); err != nil {
				return nil, err
			}
			if t.text == "old" {
				if len(args) != 1 {
					return nil, fmt.Errorf("old takes one argument")
				}
				return &Expr{Kind: "old", Args: args}, nil
			}
			return &Expr{Kind: "call", Name: t.text, Args: args}, nil
		}
		return &Expr{Kind: "ident", Name: t.text}, nil
	case "op":
		if t.text == "(" {
			e, err := p.expr(0)
			if err != nil {
				return nil, err
			}
			if err := p.expect(")"); err != nil {
				return nil, err
			}
			return e, nil
		}
	}
	return nil, fmt.Errorf("unexpected token %q", t.text)
}
