package main

// Translation of spec expressions to terms in a symbolic state.

import (
	"fmt"
	"go/constant"
	"go/types"
	"strconv"
	"strings"

	"golang.org/x/tools/go/ssa"
)

type SV struct {
	t   *Term
	typ types.Type // Go type when known
	nil bool       // untyped nil literal
	pkg *types.Package
	num bool // untyped numeric literal
}

type SpecEnv struct {
	f        *Frame
	st       *State
	old      *State
	names    map[string]SV
	bvars    map[string]SV
	loop     *Loop
	useCells bool
	fn       *ssa.Function // scope for Go names / types
	depth    int
	cellSt   *State // state used to read local variables (old() switches heaps/ghosts only)
}

func (env *SpecEnv) cells() *State {
	if env.cellSt != nil {
		return env.cellSt
	}
	return env.st
}

func (f *Frame) specEnv(st *State) *SpecEnv {
	env := &SpecEnv{f: f, st: st, old: f.entry, names: map[string]SV{}, bvars: map[string]SV{}, useCells: true, fn: f.fn}
	return env
}

// ensuresEnv: parameters denote entry values; results bound.
func (f *Frame) ensuresEnv(exit *State, results []Value) *SpecEnv {
	env := &SpecEnv{f: f, st: exit, old: f.entry, names: map[string]SV{}, bvars: map[string]SV{}, fn: f.fn}
	for i, p := range f.fn.Params {
		if t, ok := f.args[i].(*Term); ok {
			env.names[p.Name()] = SV{t: t, typ: p.Type()}
			if i == 0 && f.fn.Signature.Recv() != nil {
				env.names["self"] = SV{t: t, typ: p.Type()}
			}
		}
	}
	env.bindFreeVars(f)
	rs := f.fn.Signature.Results()
	for i := 0; i < rs.Len(); i++ {
		if t, ok := results[i].(*Term); ok {
			sv := SV{t: t, typ: rs.At(i).Type()}
			env.names[fmt.Sprintf("result%d", i)] = sv
			if rs.Len() == 1 {
				env.names["result"] = sv
			}
			if n := rs.At(i).Name(); n != "" && n != "_" {
				env.names[n] = sv
			}
		}
	}
	return env
}

func (env *SpecEnv) bindFreeVars(f *Frame) {
	// captured variables of a closure: by name, value = current content of the captured cell
	for _, fv := range f.fn.FreeVars {
		v := f.vals[fv]
		et := derefType(fv.Type())
		if et == nil {
			continue
		}
		switch x := v.(type) {
		case *Term:
			a := refAddr(x, et)
			env.names[fv.Name()] = SV{t: env.st.load(a), typ: et}
		case *Addr:
			env.names[fv.Name()] = SV{t: env.st.load(x), typ: et}
		}
	}
}

// requiresEnv at function entry
func (f *Frame) requiresEnv(entry *State) *SpecEnv {
	env := &SpecEnv{f: f, st: entry, old: entry, names: map[string]SV{}, bvars: map[string]SV{}, fn: f.fn}
	for i, p := range f.fn.Params {
		if t, ok := f.args[i].(*Term); ok {
			env.names[p.Name()] = SV{t: t, typ: p.Type()}
			if i == 0 && f.fn.Signature.Recv() != nil {
				env.names["self"] = SV{t: t, typ: p.Type()}
			}
		}
	}
	env.bindFreeVars(f)
	return env
}

// calleeEnv: environment for a callee's contract at a call site.
func (f *Frame) calleeEnv(c *Contract, ct *callTarget, st *State, old *State) *SpecEnv {
	env := &SpecEnv{f: f, st: st, old: old, names: map[string]SV{}, bvars: map[string]SV{}, fn: f.fn}
	if ct.fn != nil {
		env.fn = ct.fn
		if len(ct.fn.Params) == len(ct.args) {
			for i, p := range ct.fn.Params {
				t := f.asTerm(ct.args[i], p.Type(), st)
				env.names[p.Name()] = SV{t: t, typ: p.Type()}
				env.names[fmt.Sprintf("arg%d", i)] = SV{t: t, typ: p.Type()}
				if i == 0 && ct.fn.Signature.Recv() != nil {
					env.names["self"] = SV{t: t, typ: p.Type()}
				}
			}
		}
		if ct.bindings != nil {
			for i, fv := range ct.fn.FreeVars {
				if i >= len(ct.bindings) {
					break
				}
				et := derefType(fv.Type())
				if et == nil {
					continue
				}
				switch x := ct.bindings[i].(type) {
				case *Term:
					env.names[fv.Name()] = SV{t: st.load(refAddr(x, et)), typ: et}
				case *Addr:
					env.names[fv.Name()] = SV{t: st.load(x), typ: et}
				}
			}
		}
		return env
	}
	// interface method / external without SSA params: use signature names
	sig := ct.sig
	off := 0
	if ct.invoke {
		env.names["self"] = SV{t: f.asTerm(ct.args[0], ct.argTypes[0], st), typ: ct.argTypes[0]}
		off = 1
	}
	if sig != nil {
		for i := 0; i < sig.Params().Len() && i+off < len(ct.args); i++ {
			p := sig.Params().At(i)
			t := f.asTerm(ct.args[i+off], p.Type(), st)
			if p.Name() != "" && p.Name() != "_" {
				env.names[p.Name()] = SV{t: t, typ: p.Type()}
			}
			env.names[fmt.Sprintf("arg%d", i)] = SV{t: t, typ: p.Type()}
		}
	}
	return env
}

func (env *SpecEnv) bindCallArgs(ct *callTarget, call *ssa.CallCommon) {
	off := 0
	if ct.invoke || (ct.fn != nil && ct.fn.Signature.Recv() != nil) {
		if len(ct.args) > 0 {
			if t, ok := ct.args[0].(*Term); ok {
				env.names["callrecv"] = SV{t: t, typ: ct.argTypes[0]}
			}
		}
		off = 1
	}
	for i := off; i < len(ct.args); i++ {
		if t, ok := ct.args[i].(*Term); ok {
			env.names[fmt.Sprintf("callarg%d", i-off)] = SV{t: t, typ: ct.argTypes[i]}
		}
	}
}

func (env *SpecEnv) bindResults(res Value, sig *types.Signature) {
	rs := sig.Results()
	switch x := res.(type) {
	case *Term:
		if rs.Len() == 1 {
			sv := SV{t: x, typ: rs.At(0).Type()}
			env.names["result"] = sv
			env.names["result0"] = sv
			if n := rs.At(0).Name(); n != "" && n != "_" {
				env.names[n] = sv
			}
		}
	case *Tuple:
		for i, e := range x.Elems {
			if t, ok := e.(*Term); ok && i < rs.Len() {
				sv := SV{t: t, typ: rs.At(i).Type()}
				env.names[fmt.Sprintf("result%d", i)] = sv
				if n := rs.At(i).Name(); n != "" && n != "_" {
					env.names[n] = sv
				}
			}
		}
	}
}

func (env *SpecEnv) formula(e *Expr) (*Term, error) {
	sv, err := env.expr(e)
	if err != nil {
		return nil, err
	}
	if sv.t.Sort != sortBool {
		return nil, fmt.Errorf("formula expected, got %s in %s", sv.t.Sort.Name, e.String())
	}
	return sv.t, nil
}

func (env *SpecEnv) withState(st *State) *SpecEnv {
	n := *env
	if n.cellSt == nil {
		n.cellSt = env.st
	}
	n.st = st
	return &n
}

func specSort(ty string, env *SpecEnv) (*Sort, types.Type, error) {
	if strings.HasPrefix(ty, "go:") {
		// a Go type expression taken literally (e.g. "go:map[string]any": the Go map type, not a ghost map)
		if env != nil && env.fn != nil && env.fn.Pkg != nil {
			tv, err := types.Eval(env.f.eng.prog.Fset, env.fn.Pkg.Pkg, env.fn.Pos(), ty[3:])
			if err == nil && tv.Type != nil {
				return sortOf(tv.Type), tv.Type, nil
			}
			return nil, nil, fmt.Errorf("go type %q: %v", ty[3:], err)
		}
		return nil, nil, fmt.Errorf("go type %q outside a function", ty[3:])
	}
	switch ty {
	case "int", "ref", "iface", "time", "int64", "error":
		var gt types.Type
		switch ty {
		case "int":
			gt = types.Typ[types.Int]
		case "int64":
			gt = types.Typ[types.Int64]
		case "error":
			gt = types.Universe.Lookup("error").Type()
		}
		return sortInt, gt, nil
	case "bool":
		return sortBool, types.Typ[types.Bool], nil
	case "string":
		return sortStr, types.Typ[types.String], nil
	case "real", "float64":
		return sortReal, types.Typ[types.Float64], nil
	case "uuid":
		return usort("GUUID"), nil, nil
	}
	if strings.HasPrefix(ty, "map[") {
		// ghost map: SMT array
		depth := 0
		for i := 4; i < len(ty); i++ {
			if ty[i] == '[' {
				depth++
			}
			if ty[i] == ']' {
				if depth == 0 {
					ks, _, err := specSort(ty[4:i], env)
					if err != nil {
						return nil, nil, err
					}
					vs, _, err := specSort(ty[i+1:], env)
					if err != nil {
						return nil, nil, err
					}
					return arraySort(ks, vs), nil, nil
				}
				depth--
			}
		}
	}
	if strings.HasPrefix(ty, "set[") && strings.HasSuffix(ty, "]") {
		ks, _, err := specSort(ty[4:len(ty)-1], env)
		if err != nil {
			return nil, nil, err
		}
		return arraySort(ks, sortBool), nil, nil
	}
	if strings.HasPrefix(ty, "seq[") && strings.HasSuffix(ty, "]") {
		_, gt, err := specSort(ty[4:len(ty)-1], env)
		if err != nil || gt == nil {
			return nil, nil, fmt.Errorf("seq element type %s", ty)
		}
		st := types.NewSlice(gt)
		return sortOf(st), st, nil
	}
	// Go type expression
	if env != nil && env.fn != nil && env.fn.Pkg != nil {
		tv, err := types.Eval(env.f.eng.prog.Fset, env.fn.Pkg.Pkg, env.fn.Pos(), ty)
		if err == nil && tv.Type != nil {
			return sortOf(tv.Type), tv.Type, nil
		}
	}
	if env != nil {
		if t := env.f.eng.lookupTypeByName(ty); t != nil {
			return sortOf(t), t, nil
		}
	}
	return nil, nil, fmt.Errorf("unknown spec type %q", ty)
}

func (env *SpecEnv) lookupIdent(name string) (SV, bool, error) {
	if sv, ok := env.bvars[name]; ok {
		return sv, true, nil
	}
	if sv, ok := env.names[name]; ok {
		return sv, true, nil
	}
	f := env.f
	if env.useCells && env.cellSt != nil {
		// inside old(): a parameter name denotes its value at function entry
		if t, ok := f.argTerms[name]; ok {
			return SV{t: t, typ: f.paramTyp[name]}, true, nil
		}
	}
	if env.useCells {
		base := name
		if strings.HasPrefix(base, "rangeiter") {
			base = "rangeint.iter" + base[len("rangeiter"):] // hidden counter of `for i := range n`
		}
		ord := 0
		if i := strings.Index(name, "$"); i > 0 {
			if n, err := strconv.Atoi(name[i+1:]); err == nil {
				base = name[:i]
				ord = n
			}
		}
		if base == "visited" && env.loop != nil && env.loop.visited != nil && ord == 0 {
			if v, ok := env.cells().cells[env.loop.visited]; ok {
				return SV{t: v}, true, nil
			}
		}
		if base == "visited" && ord > 0 {
			if c, ok := f.visitedN[ord]; ok {
				if v, ok := env.cells().cells[c]; ok {
					return SV{t: v}, true, nil
				}
			}
		}
		// locals by name, in function order
		n := 0
		var declared types.Type
		for _, b := range f.fn.Blocks {
			for _, ins := range b.Instrs {
				a, ok := ins.(*ssa.Alloc)
				if !ok || a.Comment != base {
					continue
				}
				n++
				if ord != 0 && n != ord {
					continue
				}
				et := derefType(a.Type())
				if declared == nil {
					declared = et
				}
				if c, ok := f.cells[a]; ok {
					if v, live := env.cells().cells[c]; live {
						return SV{t: v, typ: et}, true, nil
					}
					if ord != 0 {
						return SV{}, false, fmt.Errorf("local %s is not live here", name)
					}
					continue
				}
				if f.escapes[a] {
					if r, ok := f.vals[a].(*Term); ok {
						return SV{t: env.cells().load(refAddr(r, et)), typ: et}, true, nil
					}
				}
				if ord != 0 {
					return SV{}, false, fmt.Errorf("local %s is not allocated yet", name)
				}
			}
		}
		if declared != nil && ord == 0 {
			// declared in this function but not live on the paths reaching this point: unconstrained
			return SV{t: f.havocOfType(declared, "notlive_"+base).(*Term), typ: declared}, true, nil
		}
		// free variables of closures
		for _, fv := range f.fn.FreeVars {
			if fv.Name() == name {
				et := derefType(fv.Type())
				switch x := f.vals[fv].(type) {
				case *Term:
					return SV{t: env.st.load(refAddr(x, et)), typ: et}, true, nil
				case *Addr:
					return SV{t: env.st.load(x), typ: et}, true, nil
				}
			}
		}
	}
	// ghost
	if _, ok := f.eng.db.Ghosts[name]; ok {
		if v, ok := env.st.ghost[name]; ok {
			return SV{t: v}, true, nil
		}
		return SV{}, false, fmt.Errorf("ghost %s not initialised", name)
	}
	switch name {
	case "time_now":
		return SV{t: env.st.clock, typ: nil}, true, nil
	case "alloc_mark":
		return SV{t: env.st.alloc}, true, nil
	}
	// Go package-level names
	if env.fn != nil && env.fn.Pkg != nil {
		if sv, ok := env.goObject(env.fn.Pkg.Pkg, name); ok {
			return sv, true, nil
		}
		// package name?
		if env.fn.Pkg.Pkg.Name() == name && strings.HasPrefix(env.fn.Pkg.Pkg.Path(), "github.com/yandex/mysync") {
			return SV{pkg: env.fn.Pkg.Pkg}, true, nil
		}
		var found *types.Package
		for _, imp := range env.fn.Pkg.Pkg.Imports() {
			if imp.Name() == name || strings.HasSuffix(imp.Path(), "/"+name) {
				if found == nil || strings.HasPrefix(imp.Path(), "github.com/yandex/mysync") {
					found = imp
				}
			}
		}
		if found != nil {
			return SV{pkg: found}, true, nil
		}
	}
	if p := f.eng.pkgByName[name]; p != nil {
		return SV{pkg: p}, true, nil
	}
	return SV{}, false, nil
}

func (env *SpecEnv) goObject(pkg *types.Package, name string) (SV, bool) {
	obj := pkg.Scope().Lookup(name)
	switch o := obj.(type) {
	case *types.Const:
		return SV{t: constTerm(o.Val(), o.Type()), typ: o.Type()}, true
	case *types.Var:
		key := "G$" + strings.TrimPrefix(pkg.Path(), modPrefix) + "." + name
		globalSorts[key] = sortOf(o.Type()).Name
		env.f.eng.noteGlobal(key, o.Type())
		if t, ok := env.st.heaps[key]; ok {
			return SV{t: t, typ: o.Type()}, true
		}
		return SV{t: sym(key, sortOf(o.Type())), typ: o.Type()}, true
	}
	return SV{}, false
}

func constTerm(v constant.Value, t types.Type) *Term {
	switch v.Kind() {
	case constant.Bool:
		return tBool(constant.BoolVal(v))
	case constant.String:
		return tStrLit(constant.StringVal(v))
	case constant.Int:
		if b, ok := t.Underlying().(*types.Basic); ok && b.Info()&types.IsFloat != 0 {
			return tReal(v.ExactString() + ".0")
		}
		return tIntStr(v.ExactString())
	case constant.Float:
		return realLit(v)
	}
	panic("constTerm")
}

func (env *SpecEnv) expr(e *Expr) (SV, error) {
	env.depth++
	defer func() { env.depth-- }()
	if env.depth > 200 {
		return SV{}, fmt.Errorf("spec expression too deep (recursive macro?)")
	}
	switch e.Kind {
	case "int":
		return SV{t: tIntStr(e.Name), num: true}, nil
	case "real":
		return SV{t: tReal(e.Name)}, nil
	case "str":
		return SV{t: tStrLit(e.Name), typ: types.Typ[types.String]}, nil
	case "bool":
		return SV{t: tBool(e.Name == "true"), typ: types.Typ[types.Bool]}, nil
	case "nil":
		return SV{t: tInt(0), nil: true}, nil
	case "ident":
		sv, ok, err := env.lookupIdent(e.Name)
		if err != nil {
			return SV{}, err
		}
		if !ok {
			return SV{}, fmt.Errorf("unknown identifier %q", e.Name)
		}
		return sv, nil
	case "call":
		if e.Name == "loopentry" && len(e.Args) == 1 {
			// loopentry(e): value of e on first arrival at the header of the loop this invariant belongs to
			if env.loop == nil || env.loop.preState == nil {
				return SV{}, fmt.Errorf("loopentry() outside a loop invariant")
			}
			n := *env
			n.st = env.loop.preState
			n.cellSt = env.loop.preState
			return n.expr(e.Args[0])
		}
		return env.call(e)
	case "old":
		if env.old == nil {
			return SV{}, fmt.Errorf("old() not available here")
		}
		n := env.withState(env.old)
		// inside old(), local names denote entry parameter values
		return n.expr(e.Args[0])
	case "unary":
		a, err := env.expr(e.Args[0])
		if err != nil {
			return SV{}, err
		}
		if e.Name == "!" {
			if a.t.Sort != sortBool {
				return SV{}, fmt.Errorf("! on non-bool")
			}
			return SV{t: tNot(a.t), typ: a.typ}, nil
		}
		return SV{t: tNeg(a.t), typ: a.typ, num: a.num}, nil
	case "cond":
		c, err := env.formula(e.Args[0])
		if err != nil {
			return SV{}, err
		}
		a, err := env.expr(e.Args[1])
		if err != nil {
			return SV{}, err
		}
		b, err := env.expr(e.Args[2])
		if err != nil {
			return SV{}, err
		}
		a, b = coerce(a, b)
		if a.t.Sort != b.t.Sort {
			return SV{}, fmt.Errorf("branches of ?: have different sorts")
		}
		return SV{t: tIte(c, a.t, b.t), typ: a.typ}, nil
	case "binary":
		return env.binary(e)
	case "forall", "exists":
		n := *env
		n.bvars = map[string]SV{}
		for k, v := range env.bvars {
			n.bvars[k] = v
		}
		var bvs []BVar
		for _, b := range e.Binders {
			srt, gt, err := specSort(b.Type, env)
			if err != nil {
				return SV{}, err
			}
			bv, t := freshBVar(b.Name, srt)
			bvs = append(bvs, bv)
			n.bvars[b.Name] = SV{t: t, typ: gt}
		}
		body, err := n.formula(e.Args[0])
		if err != nil {
			return SV{}, err
		}
		if len(e.Pats) > 0 && e.Kind == "forall" {
			var pats [][]*Term
			for _, grp := range e.Pats {
				var ts []*Term
				for _, pe := range grp {
					pv, err := n.expr(pe)
					if err != nil {
						return SV{}, err
					}
					ts = append(ts, pv.t)
				}
				pats = append(pats, ts)
			}
			return SV{t: mkForallPat(bvs, body, pats...), typ: types.Typ[types.Bool]}, nil
		}
		return SV{t: mkQuant(e.Kind, bvs, body), typ: types.Typ[types.Bool]}, nil
	case "count":
		return env.count(e)
	case "field":
		return env.field(e)
	case "index":
		a, err := env.expr(e.Args[0])
		if err != nil {
			return SV{}, err
		}
		i, err := env.expr(e.Args[1])
		if err != nil {
			return SV{}, err
		}
		return env.index(a, i)
	}
	return SV{}, fmt.Errorf("unsupported spec expression %s", e.Kind)
}

func coerce(a, b SV) (SV, SV) {
	if a.t.Sort == sortReal && b.t.Sort == sortInt {
		b = SV{t: intToReal(b.t), typ: a.typ}
	} else if b.t.Sort == sortReal && a.t.Sort == sortInt {
		a = SV{t: intToReal(a.t), typ: b.typ}
	}
	if a.nil && !b.nil {
		a = SV{t: zeroOfSort(b.t.Sort), typ: b.typ, nil: true}
	} else if b.nil && !a.nil {
		b = SV{t: zeroOfSort(a.t.Sort), typ: a.typ, nil: true}
	}
	return a, b
}

func intToReal(t *Term) *Term {
	if c, ok := isIntConst(t); ok {
		if c < 0 {
			return mk("#r-"+strconv.FormatInt(-c, 10)+".0", sortReal)
		}
		return tReal(strconv.FormatInt(c, 10) + ".0")
	}
	return mk("to_real", sortReal, t)
}

func (env *SpecEnv) binary(e *Expr) (SV, error) {
	op := e.Name
	boolT := types.Typ[types.Bool]
	switch op {
	case "&&", "||", "==>", "<==>":
		a, err := env.formula(e.Args[0])
		if err != nil {
			return SV{}, err
		}
		b, err := env.formula(e.Args[1])
		if err != nil {
			return SV{}, err
		}
		switch op {
		case "&&":
			return SV{t: tAnd(a, b), typ: boolT}, nil
		case "||":
			return SV{t: tOr(a, b), typ: boolT}, nil
		case "==>":
			return SV{t: tImp(a, b), typ: boolT}, nil
		default:
			return SV{t: tEq(a, b), typ: boolT}, nil
		}
	}
	a, err := env.expr(e.Args[0])
	if err != nil {
		return SV{}, err
	}
	b, err := env.expr(e.Args[1])
	if err != nil {
		return SV{}, err
	}
	a, b = coerce(a, b)
	switch op {
	case "==", "!=":
		var r *Term
		if a.t.Sort != b.t.Sort {
			return SV{}, fmt.Errorf("== on different sorts %s / %s in %s", a.t.Sort.Name, b.t.Sort.Name, e.String())
		}
		if (a.nil || b.nil) && a.t.Sort.Kind == "data" && strings.HasPrefix(a.t.Sort.Name, "Sl_") {
			x := a
			if a.nil {
				x = b
			}
			r = tNot(slNN(x.t))
		} else {
			r = tEq(a.t, b.t)
		}
		if op == "!=" {
			r = tNot(r)
		}
		return SV{t: r, typ: boolT}, nil
	case "<", "<=", ">", ">=":
		if a.t.Sort == sortStr {
			var r *Term
			switch op {
			case "<":
				r = strLt(a.t, b.t)
			case ">":
				r = strLt(b.t, a.t)
			case "<=":
				r = tNot(strLt(b.t, a.t))
			default:
				r = tNot(strLt(a.t, b.t))
			}
			return SV{t: r, typ: boolT}, nil
		}
		if a.t.Sort != b.t.Sort || (a.t.Sort != sortInt && a.t.Sort != sortReal) {
			return SV{}, fmt.Errorf("comparison on sorts %s / %s in %s", a.t.Sort.Name, b.t.Sort.Name, e.String())
		}
		return SV{t: cmp(op, a.t, b.t), typ: boolT}, nil
	case "+", "-", "*":
		if a.t.Sort != b.t.Sort || (a.t.Sort != sortInt && a.t.Sort != sortReal) {
			return SV{}, fmt.Errorf("arithmetic on sorts %s / %s in %s", a.t.Sort.Name, b.t.Sort.Name, e.String())
		}
		typ := a.typ
		if typ == nil {
			typ = b.typ
		}
		return SV{t: arith(op, a.t, b.t), typ: typ, num: a.num && b.num}, nil
	case "/":
		if a.t.Sort == sortReal {
			return SV{t: realDiv(a.t, b.t), typ: a.typ}, nil
		}
		return SV{t: goDiv(a.t, b.t), typ: a.typ}, nil
	case "%":
		return SV{t: goRem(a.t, b.t), typ: a.typ}, nil
	}
	return SV{}, fmt.Errorf("operator %s", op)
}

func (env *SpecEnv) field(e *Expr) (SV, error) {
	x, err := env.expr(e.Args[0])
	if err != nil {
		return SV{}, err
	}
	if x.pkg != nil {
		sv, ok := env.goObject(x.pkg, e.Name)
		if !ok {
			return SV{}, fmt.Errorf("%s.%s not found", x.pkg.Name(), e.Name)
		}
		return sv, nil
	}
	if x.typ == nil {
		return SV{}, fmt.Errorf("field %s of untyped spec value %s", e.Name, e.Args[0].String())
	}
	t := x.typ
	ptr := false
	if p, ok := t.Underlying().(*types.Pointer); ok {
		t = p.Elem()
		ptr = true
	}
	if isTimeType(t) {
		return SV{}, fmt.Errorf("time.Time has no spec fields")
	}
	u, ok := t.Underlying().(*types.Struct)
	if !ok {
		return SV{}, fmt.Errorf("field %s of non-struct %s", e.Name, t)
	}
	for i := 0; i < u.NumFields(); i++ {
		if u.Field(i).Name() == e.Name {
			ft := u.Field(i).Type()
			if ptr {
				a := &Addr{ref: x.t, base: t, typ: ft, path: []PathStep{{kind: stepField, field: i, ctyp: t}}}
				return SV{t: env.st.load(a), typ: ft}, nil
			}
			return SV{t: tField(x.t, i), typ: ft}, nil
		}
	}
	return SV{}, fmt.Errorf("no field %s in %s", e.Name, t)
}

func (env *SpecEnv) index(a, i SV) (SV, error) {
	if a.typ != nil {
		switch u := a.typ.Underlying().(type) {
		case *types.Slice:
			return SV{t: tSelect(slArr(a.t), i.t), typ: u.Elem()}, nil
		case *types.Map:
			v, _ := env.f.mapLookup(env.st, a.t, u, i.t)
			return SV{t: v, typ: u.Elem()}, nil
		case *types.Array:
			return SV{t: tSelect(a.t, i.t), typ: u.Elem()}, nil
		case *types.Pointer:
			// pointer to named map type etc.
			if m, ok := u.Elem().Underlying().(*types.Map); ok {
				mv := env.st.load(&Addr{ref: a.t, base: u.Elem(), typ: u.Elem()})
				v, _ := env.f.mapLookup(env.st, mv, m, i.t)
				return SV{t: v, typ: m.Elem()}, nil
			}
		}
	}
	if a.t.Sort.Kind == "array" {
		if a.t.Sort.Idx != i.t.Sort {
			return SV{}, fmt.Errorf("index sort mismatch")
		}
		return SV{t: tSelect(a.t, i.t)}, nil
	}
	if a.t.Sort.Kind == "data" && strings.HasPrefix(a.t.Sort.Name, "Sl_") {
		return SV{t: tSelect(slArr(a.t), i.t)}, nil
	}
	return SV{}, fmt.Errorf("cannot index %s", a.t.Sort.Name)
}

func (env *SpecEnv) call(e *Expr) (SV, error) {
	db := env.f.eng.db
	boolT := types.Typ[types.Bool]
	intT := types.Typ[types.Int]
	argv := func(i int) (SV, error) { return env.expr(e.Args[i]) }
	need := func(n int) error {
		if len(e.Args) != n {
			return fmt.Errorf("%s expects %d arguments", e.Name, n)
		}
		return nil
	}
	switch e.Name {
	case "len":
		if err := need(1); err != nil {
			return SV{}, err
		}
		a, err := argv(0)
		if err != nil {
			return SV{}, err
		}
		if a.typ != nil {
			switch u := a.typ.Underlying().(type) {
			case *types.Slice:
				return SV{t: slLen(a.t), typ: intT}, nil
			case *types.Map:
				return SV{t: env.f.mapLen(env.st, a.t, u), typ: intT}, nil
			case *types.Basic:
				return SV{t: strLen(a.t), typ: intT}, nil
			}
		}
		if a.t.Sort.Kind == "data" && strings.HasPrefix(a.t.Sort.Name, "Sl_") {
			return SV{t: slLen(a.t), typ: intT}, nil
		}
		return SV{}, fmt.Errorf("len of %s", a.t.Sort.Name)
	case "has":
		if err := need(2); err != nil {
			return SV{}, err
		}
		m, err := argv(0)
		if err != nil {
			return SV{}, err
		}
		k, err := argv(1)
		if err != nil {
			return SV{}, err
		}
		if m.typ != nil {
			if mt, ok := m.typ.Underlying().(*types.Map); ok {
				_, found := env.f.mapLookup(env.st, m.t, mt, k.t)
				return SV{t: found, typ: boolT}, nil
			}
		}
		if m.t.Sort.Kind == "array" && m.t.Sort.Elem == sortBool {
			return SV{t: tSelect(m.t, k.t), typ: boolT}, nil
		}
		return SV{}, fmt.Errorf("has() on %s", m.t.Sort.Name)
	case "dom":
		m, err := argv(0)
		if err != nil {
			return SV{}, err
		}
		if m.typ != nil {
			if mt, ok := m.typ.Underlying().(*types.Map); ok {
				o := env.f.mapObj(env.st, m.t, mt)
				return SV{t: tIte(tEq(m.t, tInt(0)), tConstArr(mapDom(o).Sort, tFalse()), mapDom(o))}, nil
			}
		}
		return SV{}, fmt.Errorf("dom() on non-map")
	case "at":
		// at(m, k): the value stored under key k of map m, unspecified when k is absent (unlike m[k], which is the zero
		// value then and therefore translates to an if-then-else that cannot serve as an instantiation pattern); meant
		// for use under a has(m, k) guard
		if err := need(2); err != nil {
			return SV{}, err
		}
		m, err := argv(0)
		if err != nil {
			return SV{}, err
		}
		k, err := argv(1)
		if err != nil {
			return SV{}, err
		}
		if m.typ != nil {
			if mt, ok := m.typ.Underlying().(*types.Map); ok {
				mm := m.t
				for mm.Op == "ite" && mm.Args[2] == tInt(0) {
					mm = mm.Args[1]
				}
				return SV{t: tSelect(mapVal(env.f.mapObj(env.st, mm, mt)), k.t), typ: mt.Elem()}, nil
			}
		}
		return SV{}, fmt.Errorf("at() on non-map")
	case "content":
		// content(m): the whole contents (key set and values) of the map object m denotes, as one value: lets a frame
		// condition say "this map object was not written to" without a quantifier over its keys
		m, err := argv(0)
		if err != nil {
			return SV{}, err
		}
		if m.typ != nil {
			if mt, ok := m.typ.Underlying().(*types.Map); ok {
				return SV{t: env.f.mapObj(env.st, m.t, mt)}, nil
			}
		}
		return SV{}, fmt.Errorf("content() on non-map")
	case "contains":
		if err := need(2); err != nil {
			return SV{}, err
		}
		s, err := argv(0)
		if err != nil {
			return SV{}, err
		}
		x, err := argv(1)
		if err != nil {
			return SV{}, err
		}
		return SV{t: containsTerm(s.t, x.t), typ: boolT}, nil
	case "upd":
		if err := need(3); err != nil {
			return SV{}, err
		}
		m, err := argv(0)
		if err != nil {
			return SV{}, err
		}
		k, err := argv(1)
		if err != nil {
			return SV{}, err
		}
		v, err := argv(2)
		if err != nil {
			return SV{}, err
		}
		return SV{t: tStore(m.t, k.t, v.t)}, nil
	case "min", "max":
		if err := need(2); err != nil {
			return SV{}, err
		}
		a, err := argv(0)
		if err != nil {
			return SV{}, err
		}
		b, err := argv(1)
		if err != nil {
			return SV{}, err
		}
		a, b = coerce(a, b)
		if e.Name == "min" {
			return SV{t: tIte(tLe(a.t, b.t), a.t, b.t), typ: a.typ}, nil
		}
		return SV{t: tIte(tGe(a.t, b.t), a.t, b.t), typ: a.typ}, nil
	case "alive":
		// alive(p): the pointer-like value p denotes nil or an object that exists in the current state (is not
		// "yet to be allocated"): true of every pointer a Go program can hold; needed explicitly for pointers that
		// are only reachable under a quantifier (map / slice contents), so that later allocations cannot alias them
		if err := need(1); err != nil {
			return SV{}, err
		}
		x, err := argv(0)
		if err != nil {
			return SV{}, err
		}
		if x.t.Sort != sortInt {
			return SV{}, fmt.Errorf("alive: pointer-like argument expected")
		}
		return SV{t: tLe(x.t, env.st.alloc), typ: boolT}, nil
	case "newer":
		// newer(p): p denotes an object allocated since the entry of the function under verification
		if err := need(1); err != nil {
			return SV{}, err
		}
		x, err := argv(0)
		if err != nil {
			return SV{}, err
		}
		// (in a contract applied at a call site the "entry" is the state just before the call)
		if x.t.Sort != sortInt || (env.old == nil && env.f.root.entry == nil) {
			return SV{}, fmt.Errorf("newer: pointer-like argument expected")
		}
		if env.old != nil {
			return SV{t: tGt(x.t, env.old.alloc), typ: boolT}, nil
		}
		return SV{t: tGt(x.t, env.f.root.entry.alloc), typ: boolT}, nil
	case "in_range":
		if err := need(2); err != nil {
			return SV{}, err
		}
		i, err := argv(0)
		if err != nil {
			return SV{}, err
		}
		s, err := argv(1)
		if err != nil {
			return SV{}, err
		}
		return SV{t: tAnd(tLe(tInt(0), i.t), tLt(i.t, slLen(s.t))), typ: boolT}, nil
	case "range":
		// range(lo, hi): the set of integers lo <= i < hi
		if err := need(2); err != nil {
			return SV{}, err
		}
		lo, err := argv(0)
		if err != nil {
			return SV{}, err
		}
		hi, err := argv(1)
		if err != nil {
			return SV{}, err
		}
		srt := arraySort(sortInt, sortBool)
		r := uf("intrange", srt, lo.t, hi.t)
		bq, i := freshBVar("i", sortInt)
		env.f.root.hyps = append(env.f.root.hyps, mkQuant("forall", []BVar{bq}, tEq(tSelect(r, i), tAnd(tLe(lo.t, i), tLt(i, hi.t)))))
		// one unfolding step (a consequence of the definition; spares the solver an extensionality proof)
		hm1 := tSub(hi.t, tInt(1))
		r1 := uf("intrange", srt, lo.t, hm1)
		bq2, i2 := freshBVar("i", sortInt)
		env.f.root.hyps = append(env.f.root.hyps, mkQuant("forall", []BVar{bq2}, tEq(tSelect(r1, i2), tAnd(tLe(lo.t, i2), tLt(i2, hm1)))))
		env.f.root.hyps = append(env.f.root.hyps, tImp(tGt(hi.t, lo.t), tEq(r, tStore(r1, hm1, tTrue()))))
		env.f.root.hyps = append(env.f.root.hyps, tImp(tLe(hi.t, lo.t), tEq(r, tConstArr(srt, tFalse()))))
		return SV{t: r}, nil
	case "reached":
		// reached("Callee", k): the k-th static call of Callee was executed on the path to this point
		if len(e.Args) != 2 || e.Args[0].Kind != "str" || e.Args[1].Kind != "int" {
			return SV{}, fmt.Errorf("reached(\"Callee\", k)")
		}
		k, _ := strconv.Atoi(e.Args[1].Name)
		n := 0
		for _, b := range env.f.fn.Blocks {
			for _, ins := range b.Instrs {
				c, ok := ins.(*ssa.Call)
				if !ok || !siteMatches(e.Args[0].Name, staticDisplay(&c.Call)) {
					continue
				}
				n++
				if n != k {
					continue
				}
				if pc, ok := env.f.sitePC[c]; ok {
					return SV{t: pc, typ: boolT}, nil
				}
				return SV{t: tFalse(), typ: boolT}, nil
			}
		}
		return SV{}, fmt.Errorf("reached: call site %s#%d not found (stale contract)", e.Args[0].Name, k)
	case "resultof":
		// resultof("Callee", k [, i]): value returned by the k-th static call of Callee in this function
		if len(e.Args) < 2 || e.Args[0].Kind != "str" || e.Args[1].Kind != "int" {
			return SV{}, fmt.Errorf("resultof(\"Callee\", k [, i])")
		}
		k, _ := strconv.Atoi(e.Args[1].Name)
		idx := 0
		if len(e.Args) == 3 {
			idx, _ = strconv.Atoi(e.Args[2].Name)
		}
		n := 0
		for _, b := range env.f.fn.Blocks {
			for _, ins := range b.Instrs {
				c, ok := ins.(*ssa.Call)
				if !ok || !siteMatches(e.Args[0].Name, staticDisplay(&c.Call)) {
					continue
				}
				n++
				if n != k {
					continue
				}
				v, ok := env.f.vals[c]
				if !ok {
					// not executed on the paths reaching this point: an unconstrained value (conservative for obligations)
					v = env.f.havocOfType(c.Type(), "notyet")
				}
				rs := c.Call.Signature().Results()
				switch x := v.(type) {
				case *Term:
					return SV{t: x, typ: rs.At(0).Type()}, nil
				case *Tuple:
					if idx < len(x.Elems) {
						if t, ok := x.Elems[idx].(*Term); ok {
							return SV{t: t, typ: rs.At(idx).Type()}, nil
						}
					}
				}
				return SV{}, fmt.Errorf("resultof(%s,%d): unsupported result shape", e.Args[0].Name, k)
			}
		}
		return SV{}, fmt.Errorf("resultof: call site %s#%d not found (stale contract)", e.Args[0].Name, k)
	case "strIndex":
		a, err := argv(0)
		if err != nil {
			return SV{}, err
		}
		b, err := argv(1)
		if err != nil {
			return SV{}, err
		}
		return SV{t: strIndex(env.f, env.st, a.t, b.t), typ: intT}, nil
	case "substr":
		a, err := argv(0)
		if err != nil {
			return SV{}, err
		}
		lo, err := argv(1)
		if err != nil {
			return SV{}, err
		}
		hi, err := argv(2)
		if err != nil {
			return SV{}, err
		}
		return SV{t: uf("str_sub", sortStr, a.t, lo.t, hi.t), typ: types.Typ[types.String]}, nil
	case "seconds":
		a, err := argv(0)
		if err != nil {
			return SV{}, err
		}
		return SV{t: mk("/", sortReal, mk("to_real", sortReal, a.t), tReal("1000000000.0")), typ: types.Typ[types.Float64]}, nil
	case "real":
		a, err := argv(0)
		if err != nil {
			return SV{}, err
		}
		return SV{t: intToReal(a.t), typ: types.Typ[types.Float64]}, nil
	case "floor":
		a, err := argv(0)
		if err != nil {
			return SV{}, err
		}
		return SV{t: mk("to_int", sortInt, a.t), typ: intT}, nil
	case "errIs":
		a, err := argv(0)
		if err != nil {
			return SV{}, err
		}
		b, err := argv(1)
		if err != nil {
			return SV{}, err
		}
		return SV{t: errIs(a.t, b.t), typ: boolT}, nil
	case "deref":
		// deref(p): value a pointer points to
		p, err := argv(0)
		if err != nil {
			return SV{}, err
		}
		et := derefType(p.typ)
		if et == nil {
			return SV{}, fmt.Errorf("deref of non-pointer")
		}
		return SV{t: env.st.load(&Addr{ref: p.t, base: et, typ: et}), typ: et}, nil
	case "unbox":
		// unbox(x, "pkg.Type"): payload of an interface value under the assumption of its dynamic type
		x, err := argv(0)
		if err != nil {
			return SV{}, err
		}
		if e.Args[1].Kind != "str" {
			return SV{}, fmt.Errorf("unbox(x, \"Type\")")
		}
		_, gt, err := specSort(e.Args[1].Name, env)
		if err != nil || gt == nil {
			return SV{}, fmt.Errorf("unbox type %q: %v", e.Args[1].Name, err)
		}
		return SV{t: env.f.unbox(x.t, gt), typ: gt}, nil
	case "hastype":
		x, err := argv(0)
		if err != nil {
			return SV{}, err
		}
		_, gt, err := specSort(e.Args[1].Name, env)
		if err != nil || gt == nil {
			return SV{}, fmt.Errorf("hastype type %q: %v", e.Args[1].Name, err)
		}
		return SV{t: tAnd(tNot(tEq(x.t, tInt(0))), tEq(env.f.itag(x.t), tInt(env.f.eng.typeTag(gt)))), typ: boolT}, nil
	}
	if md, ok := db.Macros[e.Name]; ok {
		if len(md.Params) != len(e.Args) {
			return SV{}, fmt.Errorf("macro %s expects %d arguments", e.Name, len(md.Params))
		}
		n := *env
		n.names = map[string]SV{}
		n.bvars = map[string]SV{}
		n.useCells = false
		for i, p := range md.Params {
			a, err := env.expr(e.Args[i])
			if err != nil {
				return SV{}, err
			}
			if p.Type != "" && a.typ == nil {
				if _, gt, err := specSort(p.Type, env); err == nil && gt != nil {
					a.typ = gt
				}
			}
			if p.Type != "" && a.num {
				if srt, _, err := specSort(p.Type, env); err == nil && srt == sortReal {
					a.t = intToReal(a.t)
				}
			}
			n.names[p.Name] = a
		}
		return n.expr(md.Body)
	}
	if ud, ok := db.UFuncs[e.Name]; ok {
		if len(ud.Params) != len(e.Args) {
			return SV{}, fmt.Errorf("ufunc %s expects %d arguments", e.Name, len(ud.Params))
		}
		var args []*Term
		var sorts []*Sort
		for i := range e.Args {
			a, err := argv(i)
			if err != nil {
				return SV{}, err
			}
			ps, _, err := specSort(ud.Params[i], env)
			if err != nil {
				return SV{}, err
			}
			if a.t.Sort != ps {
				if ps == sortReal && a.t.Sort == sortInt {
					a.t = intToReal(a.t)
				} else {
					return SV{}, fmt.Errorf("ufunc %s argument %d: sort %s, want %s", e.Name, i, a.t.Sort.Name, ps.Name)
				}
			}
			args = append(args, a.t)
			sorts = append(sorts, ps)
		}
		rs, rt, err := specSort(ud.Ret, env)
		if err != nil {
			return SV{}, err
		}
		declFun("sf$"+ud.Name, sorts, rs)
		return SV{t: app("sf$"+ud.Name, rs, args...), typ: rt}, nil
	}
	return SV{}, fmt.Errorf("unknown spec function %s", e.Name)
}

// count(k T in S :: P(k)): number of members k of the set S with P(k); a function cnt_P of the *set*
// defined by insertion axioms (independent of any enumeration order).
func (env *SpecEnv) count(e *Expr) (SV, error) {
	b := e.Binders[0]
	ks, gt, err := specSort(b.Type, env)
	if err != nil {
		return SV{}, err
	}
	set, err := env.expr(e.Args[0])
	if err != nil {
		return SV{}, err
	}
	if set.t.Sort.Kind != "array" || set.t.Sort.Elem != sortBool || set.t.Sort.Idx != ks {
		return SV{}, fmt.Errorf("count: set of %s expected, got %s", ks.Name, set.t.Sort.Name)
	}
	n := *env
	n.bvars = map[string]SV{}
	for k, v := range env.bvars {
		n.bvars[k] = v
	}
	bvName := "cnt$k$" + sanitize(ks.Name)
	kt := bvarTerm(bvName, ks)
	n.bvars[b.Name] = SV{t: kt, typ: gt}
	body, err := n.formula(e.Args[1])
	if err != nil {
		return SV{}, err
	}
	id := fmt.Sprintf("%d", body.id)
	pName, cName := "cntP$"+id, "cnt$"+id
	setSort := set.t.Sort
	root := env.f.root
	if _, done := symDecls[cName]; !done {
		declFun(pName, []*Sort{ks}, sortBool)
		declFun(cName, []*Sort{setSort}, sortInt)
	}
	if root.countDefs == nil {
		root.countDefs = map[string]bool{}
	}
	if !root.countDefs[cName] {
		root.countDefs[cName] = true
		bv := BVar{bvName, ks}
		root.hyps = append(root.hyps, mkQuant("forall", []BVar{bv}, tEq(app(pName, sortBool, kt), body)))
		bS, S := freshBVar("S", setSort)
		bk, k := freshBVar("k", ks)
		cnt := func(x *Term) *Term { return app(cName, sortInt, x) }
		root.hyps = append(root.hyps,
			tEq(cnt(tConstArr(setSort, tFalse())), tInt(0)),
			mkQuant("forall", []BVar{bS}, tGe(cnt(S), tInt(0))),
			mkQuant("forall", []BVar{bS, bk}, tImp(tNot(tSelect(S, k)),
				tEq(cnt(tStore(S, k, tTrue())), tAdd(cnt(S), tIte(app(pName, sortBool, k), tInt(1), tInt(0)))))))
	}
	return SV{t: app(cName, sortInt, set.t), typ: types.Typ[types.Int]}, nil
}
