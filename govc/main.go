package main

import (
	"golang.org/x/tools/go/ssa"
	"encoding/json"
	"fmt"
	"os"
	"path/filepath"
	"sort"
	"strconv"
	"strings"
	"time"
)

func usage() {
	fmt.Fprintln(os.Stderr, `usage:
  govc check <property> <quick|thorough> [-repo DIR] [-verif DIR]
  govc dump <function> [-repo DIR]        debug: obligations of one function
  govc list                               functions under contract`)
	os.Exit(2)
}

type opts struct {
	repo, verif string
	out         string // evidence / work / replays (default: verif)
	only        string
	keep        bool
	timeout     int
	safety      bool
}

func parseOpts(args []string) (opts, []string) {
	o := opts{repo: "/repo", verif: "/verif"}
	var rest []string
	for i := 0; i < len(args); i++ {
		switch args[i] {
		case "-repo":
			i++
			o.repo = args[i]
		case "-verif":
			i++
			o.verif = args[i]
		case "-out":
			i++
			o.out = args[i]
		case "-only":
			i++
			o.only = args[i]
		case "-keep":
			o.keep = true
		case "-safety":
			o.safety = true
		case "-timeout":
			i++
			o.timeout, _ = strconv.Atoi(args[i])
		default:
			rest = append(rest, args[i])
		}
	}
	if o.out == "" {
		o.out = o.verif
	}
	return o, rest
}

func main() {
	if len(os.Args) < 2 {
		usage()
	}
	o, rest := parseOpts(os.Args[2:])
	switch os.Args[1] {
	case "check":
		if len(rest) < 2 {
			usage()
		}
		os.Exit(cmdCheck(o, rest[0], rest[1]))
	case "dump":
		if len(rest) < 1 {
			usage()
		}
		os.Exit(cmdDump(o, rest[0]))
	case "list":
		os.Exit(cmdList(o))
	case "sweep":
		os.Exit(cmdSweep(o, rest))
	case "reach":
		os.Exit(cmdReach(o, rest))
	case "sites":
		if len(rest) < 1 {
			usage()
		}
		os.Exit(cmdSites(o, rest[0]))
	default:
		usage()
	}
}

func mustLoad(o opts) *Engine {
	t0 := time.Now()
	e, err := loadEngine(o.repo, filepath.Join(o.verif, "specs"))
	if err != nil {
		fmt.Fprintln(os.Stderr, "govc: load failed:", err)
		os.Exit(2)
	}
	e.loadSeconds = time.Since(t0).Seconds()
	e.initAxioms()
	e.computeGlobalInit()
	return e
}

func cmdList(o opts) int {
	e := mustLoad(o)
	var names []string
	for n, c := range e.db.Contracts {
		tag := ""
		if c.Assumed {
			tag = " (assumed)"
		}
		if _, ok := e.fnByName[n]; !ok {
			tag += " [no such function]"
		}
		names = append(names, n+tag)
	}
	sort.Strings(names)
	for _, n := range names {
		fmt.Println(n)
	}
	return 0
}

func cmdDump(o opts, name string) int {
	e := mustLoad(o)
	fn := e.fnByName[name]
	if fn == nil {
		// suffix match
		var cands []string
		for n := range e.fnByName {
			if strings.HasSuffix(n, name) {
				cands = append(cands, n)
			}
		}
		sort.Strings(cands)
		if len(cands) >= 1 {
			if len(cands) > 1 {
				fmt.Println("candidates:", cands)
			}
			fn = e.fnByName[cands[0]]
		}
	}
	if fn == nil {
		fmt.Println("no such function", name)
		return 2
	}
	f, err := e.verifyFunction(fn, o.safety)
	if err != nil {
		fmt.Println(err)
		return 2
	}
	for _, m := range e.specErrors {
		fmt.Println("SPEC ERROR:", m)
	}
	dir := filepath.Join(os.TempDir(), "govc-dump", sanitizeFile(name))
	os.RemoveAll(dir)
	to := 10
	if o.timeout > 0 {
		to = o.timeout
	}
	var obls []*Obligation
	for _, ob := range f.obls {
		if o.only == "" || strings.Contains(ob.ID, o.only) {
			obls = append(obls, ob)
		}
	}
	solveAll(obls, dir, to, false, 5)
	for _, ob := range obls {
		fmt.Printf("%-11s %-8s %6.2fs  %s   [%s] %s\n", ob.Status, ob.Solver, ob.Seconds, ob.ID, strings.Join(ob.Props, ","), ob.Pos)
		if ob.Status != "discharged" {
			fmt.Println("     ", ob.Output)
			fmt.Println("      query:", ob.Query)
		}
	}
	var notes []string
	for n := range f.notes {
		notes = append(notes, n)
	}
	sort.Strings(notes)
	for _, n := range notes {
		fmt.Println("note:", n)
	}
	fmt.Println("modset:", e.modSetOf(fn).keys())
	return 0
}

// ---------------------------------------------------------------------------------------------

type KnownFinding struct {
	Property   string `json:"property"`
	Obligation string `json:"obligation"`
	What       string `json:"what_fails"`
	Status     string `json:"status"` // known | fixed
	Commit     string `json:"commit,omitempty"`
}

func loadKnown(verif string) []KnownFinding {
	var out struct {
		Findings []KnownFinding `json:"findings"`
	}
	data, err := os.ReadFile(filepath.Join(verif, "known_findings.json"))
	if err != nil {
		return nil
	}
	json.Unmarshal(data, &out)
	return out.Findings
}

func cmdCheck(o opts, prop, tier string) int {
	t0 := time.Now()
	seed := 0
	if s := os.Getenv("VERIF_SEED"); s != "" {
		seed, _ = strconv.Atoi(s)
	}
	e := mustLoad(o)
	timeout := 10
	if tier == "thorough" {
		timeout = 60
	}
	if o.timeout > 0 {
		timeout = o.timeout
	}
	var all []*Obligation
	var frames []*Frame
	var supportFrames []*Frame
	var engineErrs []string
	var names []string
	for n, c := range e.db.Contracts {
		if !c.Assumed || c.Flags["partial"] {
			names = append(names, n)
		}
	}
	sort.Strings(names)
	for _, n := range names {
		c := e.db.Contracts[n]
		fn := e.fnByName[n]
		if fn == nil {
			if contractServes(c, prop) {
				engineErrs = append(engineErrs, "contract target missing: "+n)
			}
			continue
		}
		sweep := prop == "C20" && !c.Flags["nosweep"]
		if !contractServes(c, prop) && !sweep {
			continue
		}
		f, err := e.verifyFunction(fn, sweep)
		if err != nil {
			engineErrs = append(engineErrs, err.Error())
			continue
		}
		frames = append(frames, f)
		all = append(all, f.obls...)
	}
	// support closure: the proofs above assume the postconditions of the contracted callees they call. Those clauses are
	// verified where they are tagged; a clause tagged for another property only would leave this property's check blind
	// to a change that breaks it. Every non-safety clause of every contracted function the selected proofs rely on
	// (transitively) is therefore an obligation of this check too.
	if prop != "C20" && os.Getenv("GOVC_NO_CLOSURE") == "" {
		known := loadKnown(o.verif)
		done := map[string]bool{}
		for _, f := range frames {
			done[f.name] = true
		}
		work := append([]*Frame{}, frames...)
		nExtra := 0
		for len(work) > 0 {
			f := work[0]
			work = work[1:]
			var us []string
			for u := range f.used {
				us = append(us, u)
			}
			sort.Strings(us)
			for _, u := range us {
				if done[u] {
					continue
				}
				done[u] = true
				c := e.db.Contracts[u]
				fn := e.fnByName[u]
				if c == nil || fn == nil || (c.Assumed && !c.Flags["partial"]) || len(fn.Blocks) == 0 {
					continue
				}
				g, err := e.verifyFunction(fn, false)
				if err != nil {
					engineErrs = append(engineErrs, err.Error())
					continue
				}
				for _, ob := range g.obls {
					if ob.Kind == "safety" || ob.Kind == "vacuity" || ob.Kind == "cover" || ob.Kind == "consistency" || hasProp(ob.Props, prop) {
						continue
					}
					// clauses that exist for the no-panic sweep need its type invariants; known findings of another
					// property are reported by that property's check
					if len(ob.Props) == 0 || (len(ob.Props) == 1 && ob.Props[0] == "C20") || knownElsewhere(known, ob.ID, prop) {
						continue
					}
					// quick tier: only the wrapper / statement / getter / accessor / observation clauses (what a key, a
					// statement or a published field means); thorough tier: every clause the proofs rely on
					if tier != "thorough" && !infrastructureClause(ob.ID) {
						continue
					}
					ob.Props = append(ob.Props, prop)
					ob.Support = true
					nExtra++
				}
				supportFrames = append(supportFrames, g)
				all = append(all, g.obls...)
				work = append(work, g)
			}
		}
		if os.Getenv("GOVC_CLOSURE_STATS") != "" {
			fmt.Fprintf(os.Stderr, "closure %s: %d functions, %d extra obligations\n", prop, len(supportFrames), nExtra)
		}
	}
	all = append(all, e.lemmaObligations()...)
	if prop == "C20" {
		all = append(all, e.typeInvObligations()...)
	}
	var sel []*Obligation
	for _, ob := range all {
		// the no-panic sweep relies on what the wrappers, getters and accessors answer ("never (nil, nil)", "the error is
		// handed through"): their clauses are obligations of C20 too, whatever property they were written for
		if hasProp(ob.Props, prop) || (prop == "C20" && infrastructureClause(ob.ID) && ob.Kind != "safety" && !knownElsewhere(loadKnown(o.verif), ob.ID, prop)) {
			sel = append(sel, ob)
		}
	}
	for _, m := range e.specErrors {
		engineErrs = append(engineErrs, "spec: "+m)
	}
	for _, k := range loadKnown(o.verif) {
		if k.Status != "known" {
			continue
		}
		for _, ob := range sel {
			if ob.ID == k.Obligation || stripOrdinal(ob.ID) == k.Obligation || strings.HasPrefix(ob.ID, k.Obligation+"@") {
				ob.NoRetry = true
			}
		}
	}
	qdir := filepath.Join(o.out, "work", prop)
	os.RemoveAll(qdir)
	solveAll(sel, qdir, timeout, tier == "thorough", 5)
	return report(o, e, prop, tier, seed, sel, append(frames, supportFrames...), engineErrs, time.Since(t0).Seconds(), timeout)
}

// cmdSweep: developer view of the C20 sweep - safety obligations of the named functions (or of every function under
// contract), fast solving, failures grouped by function.
func cmdSweep(o opts, pats []string) int {
	os.Setenv("GOVC_FAST", "1")
	e := mustLoad(o)
	var names []string
	for n, fn := range e.fnByName {
		if fn == nil || len(fn.Blocks) == 0 {
			continue
		}
		c := e.db.Contracts[n]
		if len(pats) == 0 {
			if c == nil || (c.Assumed && !c.Flags["partial"]) || c.Flags["nosweep"] {
				continue
			}
			names = append(names, n)
			continue
		}
		for _, p := range pats {
			if strings.Contains(n, p) {
				names = append(names, n)
				break
			}
		}
	}
	sort.Strings(names)
	to := 3
	if o.timeout > 0 {
		to = o.timeout
	}
	total, bad := 0, 0
	for _, n := range names {
		f, err := e.verifyFunction(e.fnByName[n], true)
		if err != nil {
			fmt.Printf("%-60s ENGINE ERROR %v\n", n, err)
			continue
		}
		var sel []*Obligation
		for _, ob := range f.obls {
			for _, p := range ob.Props {
				if p == "C20" {
					sel = append(sel, ob)
					break
				}
			}
		}
		dir := filepath.Join(os.TempDir(), "govc-sweep", sanitizeFile(n))
		os.RemoveAll(dir)
		solveAll(sel, dir, to, false, 5)
		nb := 0
		for _, ob := range sel {
			if ob.Status != "discharged" {
				nb++
			}
		}
		total += len(sel)
		bad += nb
		fmt.Printf("%-70s %4d obligations %3d open\n", n, len(sel), nb)
		for _, ob := range sel {
			if ob.Status != "discharged" {
				fmt.Printf("      %-9s %s  %s\n", ob.Status, strings.TrimPrefix(ob.ID, n), ob.Pos)
			}
		}
	}
	fmt.Printf("TOTAL %d obligations, %d open\n", total, bad)
	return 0
}

// cmdReach: repo functions reachable (static calls, closures, interface implementers) from the named roots, with
// their contract status - the scope statement of the C20 sweep.
func cmdReach(o opts, roots []string) int {
	e := mustLoad(o)
	seen := map[*ssa.Function]bool{}
	var work []*ssa.Function
	for _, r := range roots {
		if fn := e.fnByName[r]; fn != nil {
			work = append(work, fn)
		} else {
			fmt.Println("no such root:", r)
		}
	}
	for len(work) > 0 {
		fn := work[len(work)-1]
		work = work[:len(work)-1]
		if seen[fn] || !isRepoFn(fn) || len(fn.Blocks) == 0 {
			continue
		}
		seen[fn] = true
		for _, b := range fn.Blocks {
			for _, ins := range b.Instrs {
				switch x := ins.(type) {
				case *ssa.MakeClosure:
					work = append(work, x.Fn.(*ssa.Function))
				case ssa.CallInstruction:
					cc := x.Common()
					if callee := cc.StaticCallee(); callee != nil {
						work = append(work, callee)
					} else if cc.IsInvoke() {
						work = append(work, e.implementers(cc)...)
					}
				}
			}
		}
	}
	var names []string
	for fn := range seen {
		names = append(names, shortName(fn))
	}
	sort.Strings(names)
	nc := 0
	for _, n := range names {
		c := e.db.Contracts[n]
		tag := "no contract"
		if c != nil {
			tag = "contract"
			if c.Assumed && !c.Flags["partial"] {
				tag = "assumed"
			}
			if c.Flags["nosweep"] {
				tag += " nosweep"
			}
			nc++
		}
		fmt.Printf("%-75s %s\n", n, tag)
	}
	fmt.Printf("REACHABLE %d functions, %d with a contract\n", len(names), nc)
	return 0
}

func knownElsewhere(known []KnownFinding, id, prop string) bool {
	for _, k := range known {
		if k.Status == "known" && k.Property != prop && (id == k.Obligation || stripOrdinal(id) == k.Obligation || strings.HasPrefix(id, k.Obligation+"@")) {
			return true
		}
	}
	return false
}

// infrastructureClause: clause labels wrap.* (appDCS keys), stmt.* / get.* (Node statements and getters), col.* (status
// accessors), obs.* (the observation function)
func infrastructureClause(id string) bool {
	i := strings.Index(id, "#")
	if i < 0 {
		return false
	}
	rest := id[i+1:]
	j := strings.Index(rest, ":")
	if j < 0 {
		return false
	}
	lab := rest[j+1:]
	for _, p := range []string{"wrap.", "stmt.", "get.", "col.", "obs."} {
		if strings.HasPrefix(lab, p) {
			return true
		}
	}
	return false
}

func hasProp(ps []string, p string) bool {
	for _, x := range ps {
		if x == p {
			return true
		}
	}
	return false
}

func contractServes(c *Contract, prop string) bool {
	chk := func(cs []*Clause) bool {
		for _, cl := range cs {
			for _, p := range cl.Props {
				if p == prop {
					return true
				}
			}
		}
		return false
	}
	if chk(c.Ensures) || chk(c.AssertAt) || chk(c.CrashInv) || chk(c.Requires) {
		return true
	}
	for _, cs := range c.LoopInv {
		if chk(cs) {
			return true
		}
	}
	return false
}

// cmdSites prints call-site and return ordinals of a function (for writing assert_at clauses).
func cmdSites(o opts, name string) int {
	e := mustLoad(o)
	fn := e.fnByName[name]
	if fn == nil {
		fmt.Println("no such function")
		return 2
	}
	counts := map[string]int{}
	rets := 0
	loops := 0
	for _, b := range fn.Blocks {
		for _, s := range b.Succs {
			if s.Dominates(b) {
				loops++
			}
		}
		for _, ins := range b.Instrs {
			pos := e.prog.Fset.Position(ins.Pos())
			switch x := ins.(type) {
			case *ssa.Call:
				d := staticDisplay(&x.Call)
				if strings.Contains(d, "zerolog") || strings.HasPrefix(d, "builtin.") {
					continue
				}
				counts[d]++
				fmt.Printf("%5d  call   %s#%d\n", pos.Line, d, counts[d])
			case *ssa.Defer:
				d := staticDisplay(&x.Call)
				counts[d]++
				fmt.Printf("%5d  defer  %s#%d\n", pos.Line, d, counts[d])
			case *ssa.Return:
				rets++
				fmt.Printf("%5d  return#%d\n", pos.Line, rets)
			}
		}
	}
	return 0
}
