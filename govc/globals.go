package main

// Initial values of package-level variables, derived from the real code: the package initialisers (SSA `init`)
// are executed symbolically once; a global that no other repo function assigns (and, for maps, that is never
// updated through a direct load) keeps its initial value, which is asserted at the entry of every verified function.

import (
	"go/token"
	"go/types"
	"sort"
	"strings"

	"golang.org/x/tools/go/ssa"
)

func globalKey(g *ssa.Global) string {
	return "G$" + strings.TrimPrefix(g.Pkg.Pkg.Path(), modPrefix) + "." + g.Name()
}

// computeGlobalInit fills e.initHyps.
func (e *Engine) computeGlobalInit() {
	mutated := map[string]bool{}
	var repoPkgs []*ssa.Package
	for _, p := range e.prog.AllPackages() {
		if strings.HasPrefix(p.Pkg.Path(), "github.com/yandex/mysync/internal") {
			repoPkgs = append(repoPkgs, p)
		}
	}
	sort.Slice(repoPkgs, func(i, j int) bool { return repoPkgs[i].Pkg.Path() < repoPkgs[j].Pkg.Path() })
	// 1. which globals are written outside init
	for fn := range e.allRepoFuncs() {
		if fn.Name() == "init" && fn.Parent() == nil {
			continue
		}
		for _, b := range fn.Blocks {
			for _, ins := range b.Instrs {
				switch x := ins.(type) {
				case *ssa.Store:
					if g, ok := addrRoot(x.Addr).(*ssa.Global); ok {
						mutated[globalKey(g)] = true
					}
					// the address of a global stored somewhere: give up on it
					if g, ok := x.Val.(*ssa.Global); ok {
						mutated[globalKey(g)] = true
					}
				case *ssa.MapUpdate:
					if ld, ok := x.Map.(*ssa.UnOp); ok && ld.Op == token.MUL {
						if g, ok := ld.X.(*ssa.Global); ok {
							mutated[globalKey(g)] = true
						}
					}
				case *ssa.Call:
					if bi, ok := x.Call.Value.(*ssa.Builtin); ok && bi.Name() == "delete" {
						if ld, ok := x.Call.Args[0].(*ssa.UnOp); ok && ld.Op == token.MUL {
							if g, ok := ld.X.(*ssa.Global); ok {
								mutated[globalKey(g)] = true
							}
						}
					}
					for _, a := range x.Call.Args {
						if g, ok := a.(*ssa.Global); ok {
							mutated[globalKey(g)] = true // address escapes into a call
						}
					}
				}
			}
		}
	}
	// 2. run each repo package's init
	for _, p := range repoPkgs {
		initFn := p.Func("init")
		if initFn == nil || len(initFn.Blocks) == 0 {
			continue
		}
		func() {
			defer func() { recover() }()
			f := e.newFrame(initFn, nil)
			f.initMode = true
			st := e.entryState()
			st.alloc = sym("alloc@init", sortInt) // objects created by initialisers precede every function's entry mark
			st.clock = sym("clock@init", sortInt)
			f.addHyp(tTrue(), tGe(st.alloc, tInt(0)))
			exit, _ := f.run(st, nil, nil)
			if exit == nil {
				return
			}
			n := 0
			for name, mem := range p.Members {
				g, ok := mem.(*ssa.Global)
				if !ok || strings.HasPrefix(name, "init$") {
					continue
				}
				key := globalKey(g)
				v, ok := exit.heaps[key]
				if !ok || mutated[key] {
					continue
				}
				et := derefType(g.Type())
				globalSorts[key] = sortOf(et).Name
				e.addInitFact(tEq(sym(key, sortOf(et)), v))
				n++
				// map-valued global: carry the map object
				if mt, ok := et.Underlying().(*types.Map); ok {
					hk := mapHeapKey(mt)
					obj := tSelect(exit.heap(hk), v)
					e.addInitFact(tAnd(tEq(tSelect(sym(hk+"@e0", heapSorts[hk]), v), obj), tLe(v, sym("alloc@0", sortInt))))
				}
			}
			if n > 0 {
				for _, h := range f.hyps {
					e.addInitFact(h)
				}
				e.initNotes = append(e.initNotes, "package-level variables of "+strings.TrimPrefix(p.Pkg.Path(), modPrefix)+" that no repo function reassigns hold the values computed by the package initialiser (derived by executing init symbolically)")
			}
		}()
	}
}

func (e *Engine) allRepoFuncs() map[*ssa.Function]bool {
	out := map[*ssa.Function]bool{}
	for _, fn := range e.fnByName {
		if isRepoFn(fn) {
			out[fn] = true
		}
	}
	return out
}

// funcValueCandidates: named repo functions of the given signature whose value is used as an operand somewhere
// (closed world for calls through function values).
func (e *Engine) funcValueCandidates(sig *types.Signature) []*ssa.Function {
	key := sig.String()
	if r, ok := e.fvCands[key]; ok {
		return r
	}
	taken := map[*ssa.Function]bool{}
	for fn := range e.allRepoFuncs() {
		for _, b := range fn.Blocks {
			for _, ins := range b.Instrs {
				var ops []*ssa.Value
				ops = ins.Operands(ops)
				for i, op := range ops {
					if op == nil || *op == nil {
						continue
					}
					f2, ok := (*op).(*ssa.Function)
					if !ok || f2.Parent() != nil || !isRepoFn(f2) {
						continue
					}
					// callee position of a call is not an address-taking use
					if c, ok := ins.(ssa.CallInstruction); ok && i == 0 && c.Common().Value == f2 {
						continue
					}
					taken[f2] = true
				}
			}
		}
	}
	var out []*ssa.Function
	for f2 := range taken {
		if types.Identical(f2.Signature.Underlying(), sig.Underlying()) || sameParams(f2.Signature, sig) {
			out = append(out, f2)
		}
	}
	sort.Slice(out, func(i, j int) bool { return out[i].String() < out[j].String() })
	e.fvCands[key] = out
	return out
}

func sameParams(a, b *types.Signature) bool {
	if a.Params().Len() != b.Params().Len() || a.Results().Len() != b.Results().Len() {
		return false
	}
	for i := 0; i < a.Params().Len(); i++ {
		if !types.Identical(a.Params().At(i).Type(), b.Params().At(i).Type()) {
			return false
		}
	}
	for i := 0; i < a.Results().Len(); i++ {
		if !types.Identical(a.Results().At(i).Type(), b.Results().At(i).Type()) {
			return false
		}
	}
	return true
}

var initFactSeq int

// addInitFact registers a fact about initial global values as an on-demand axiom: it enters a query only when one of
// the initialiser-created symbols it mentions (the global itself, or objects/errors created by init) occurs there.
func (e *Engine) addInitFact(h *Term) {
	if h.Op == "true" {
		return
	}
	syms := map[string]bool{}
	collectSyms(h, syms, map[int]bool{})
	var trig []string
	for s := range syms {
		if strings.HasPrefix(s, "G$") || strings.Contains(s, "!") {
			trig = append(trig, s)
		}
	}
	if len(trig) == 0 {
		return
	}
	sort.Strings(trig)
	initFactSeq++
	axioms = append(axioms, &Axiom{Name: "init:" + itoa(initFactSeq), Body: h, Triggers: trig})
}
