package main

// Frame inference: which heap arrays / ghost cells a function (or loop body) may write.

import (
	"os"
	"fmt"
	"go/token"
	"go/types"
	"sort"
	"strings"

	"golang.org/x/tools/go/ssa"
)

const (
	modFresh  = 1 // writes only objects allocated by the callee itself
	modPFresh = 2 // closure: writes only objects allocated by itself or by its lexical parent (fresh for the parent's callers)
	modAny    = 3
)

type ModSet struct {
	heaps  map[string]int
	ghosts map[string]bool
	clock  bool
	notes  map[string]bool
}

func newModSet() *ModSet {
	return &ModSet{heaps: map[string]int{}, ghosts: map[string]bool{}, notes: map[string]bool{}}
}

func (m *ModSet) addHeap(k string, kind int) {
	if m.heaps[k] < kind {
		m.heaps[k] = kind
	}
}

func (m *ModSet) union(o *ModSet, fromOwnClosure bool) bool {
	changed := false
	for k, v := range o.heaps {
		if v == modPFresh {
			if fromOwnClosure {
				v = modFresh
			} else {
				v = modAny
			}
		}
		if m.heaps[k] < v {
			m.heaps[k] = v
			changed = true
		}
	}
	for k := range o.ghosts {
		if !m.ghosts[k] {
			m.ghosts[k] = true
			changed = true
		}
	}
	if o.clock && !m.clock {
		m.clock = true
		changed = true
	}
	for k := range o.notes {
		m.notes[k] = true
	}
	return changed
}

func (m *ModSet) keys() []string {
	var ks []string
	for k, v := range m.heaps {
		if v == modFresh {
			ks = append(ks, k+"(fresh)")
		} else if v == modPFresh {
			ks = append(ks, k+"(parent-fresh)")
		} else {
			ks = append(ks, k)
		}
	}
	for k := range m.ghosts {
		ks = append(ks, "ghost:"+k)
	}
	sort.Strings(ks)
	return ks
}

func isRepoFn(fn *ssa.Function) bool {
	p := fn.Package()
	if p == nil {
		if fn.Parent() != nil {
			return isRepoFn(fn.Parent())
		}
		// synthetic wrappers / bound method thunks: look at receiver
		if fn.Signature.Recv() != nil {
			return strings.Contains(fn.Signature.Recv().Type().String(), "github.com/yandex/mysync")
		}
		return strings.Contains(fn.String(), "github.com/yandex/mysync")
	}
	return strings.HasPrefix(p.Pkg.Path(), "github.com/yandex/mysync")
}

// freshValues: SSA values known to denote objects allocated in this function (level modFresh) or, for a
// closure, in its lexical parent before the closure was created (level modPFresh).
func freshValues(fn *ssa.Function, esc map[*ssa.Alloc]bool, e *Engine) map[ssa.Value]int {
	fr := map[ssa.Value]int{}
	freshCell := map[*ssa.Alloc]bool{}
	// free variables bound to parent cells that only ever hold parent-allocated objects
	pfreshFV := map[*ssa.FreeVar]bool{}
	if par := fn.Parent(); par != nil {
		pesc := escapeAnalysis(par)
		pfr := e.freshOf(par, pesc)
		for _, b := range par.Blocks {
			for _, ins := range b.Instrs {
				mc, ok := ins.(*ssa.MakeClosure)
				if !ok || mc.Fn != fn {
					continue
				}
				for i, bnd := range mc.Bindings {
					a, ok := bnd.(*ssa.Alloc)
					if !ok || i >= len(fn.FreeVars) {
						continue
					}
					all, any := true, false
					for _, r := range *a.Referrers() {
						if s, ok := r.(*ssa.Store); ok && s.Addr == a {
							any = true
							if pfr[s.Val] == 0 {
								all = false
							}
						}
					}
					if all && any {
						pfreshFV[fn.FreeVars[i]] = true
					}
				}
			}
		}
		// a closure (this one or a sibling) that assigns the captured variable itself disables the rule
		for fv := range pfreshFV {
			if refs := fv.Referrers(); refs != nil {
				for _, r := range *refs {
					if s, ok := r.(*ssa.Store); ok && s.Addr == fv {
						delete(pfreshFV, fv)
					}
				}
			}
		}
	}
	for iter := 0; iter < 4; iter++ {
		changed := false
		for _, b := range fn.Blocks {
			for _, ins := range b.Instrs {
				v, ok := ins.(ssa.Value)
				if !ok {
					continue
				}
				if fr[v] != 0 {
					continue
				}
				lvl := 0
				switch x := ins.(type) {
				case *ssa.Alloc:
					if esc[x] {
						lvl = modFresh
					}
				case *ssa.MakeMap, *ssa.MakeSlice, *ssa.MakeChan:
					lvl = modFresh
				case *ssa.UnOp:
					if x.Op == token.MUL {
						if a, ok := x.X.(*ssa.Alloc); ok && freshCell[a] {
							lvl = modFresh
						}
						if fv, ok := x.X.(*ssa.FreeVar); ok && pfreshFV[fv] {
							lvl = modPFresh
						}
					}
				case *ssa.ChangeType:
					lvl = fr[x.X]
				case *ssa.Call:
					if callee := x.Call.StaticCallee(); callee != nil {
						if c := e.db.Contracts[shortName(callee)]; c != nil && c.Flags["fresh"] {
							lvl = modFresh
						}
					}
				case *ssa.FieldAddr:
					lvl = fr[x.X]
				case *ssa.IndexAddr:
					lvl = fr[x.X]
				}
				if lvl != 0 {
					fr[v] = lvl
					changed = true
				}
			}
		}
		// cells all of whose stores are fresh values
		for _, b := range fn.Blocks {
			for _, ins := range b.Instrs {
				a, ok := ins.(*ssa.Alloc)
				if !ok || freshCell[a] {
					continue
				}
				all, any := true, false
				for _, r := range *a.Referrers() {
					switch x := r.(type) {
					case *ssa.Store:
						if x.Addr == a {
							any = true
							if fr[x.Val] != modFresh {
								all = false
							}
						} else {
							all = false // address stored somewhere
						}
					case *ssa.UnOp, *ssa.DebugRef:
					case *ssa.MakeClosure:
						// captured: fine as long as no closure assigns the variable itself
						cf := x.Fn.(*ssa.Function)
						for i, bnd := range x.Bindings {
							if bnd != a || i >= len(cf.FreeVars) {
								continue
							}
							if refs := cf.FreeVars[i].Referrers(); refs != nil {
								for _, r2 := range *refs {
									if s2, ok := r2.(*ssa.Store); ok && s2.Addr == cf.FreeVars[i] {
										all = false
									}
									if _, ok := r2.(*ssa.MakeClosure); ok {
										all = false // re-captured by a nested closure: give up
									}
								}
							}
						}
					default:
						if esc[a] {
							all = false
						}
					}
				}
				if all && any {
					freshCell[a] = true
					changed = true
				}
			}
		}
		if !changed {
			break
		}
	}
	return fr
}

func addrRoot(v ssa.Value) ssa.Value {
	for {
		switch x := v.(type) {
		case *ssa.FieldAddr:
			v = x.X
		case *ssa.IndexAddr:
			if _, ok := x.X.Type().Underlying().(*types.Slice); ok {
				return x // slice element: value model
			}
			v = x.X
		default:
			return v
		}
	}
}

// heapKeysOfStore: heap arrays touched by a store through address value `addr`.
func heapKeysOfStore(addr ssa.Value) []string {
	// find the first dereference step from the root
	chain := []ssa.Value{}
	v := addr
	for {
		chain = append(chain, v)
		switch x := v.(type) {
		case *ssa.FieldAddr:
			v = x.X
			continue
		case *ssa.IndexAddr:
			if _, ok := x.X.Type().Underlying().(*types.Slice); ok {
				return nil
			}
			v = x.X
			continue
		}
		break
	}
	// chain[len-1] is the root pointer; chain[len-2] (if any) is the first step
	root := chain[len(chain)-1]
	et := derefType(root.Type())
	if et == nil {
		return nil
	}
	if bk := staticBoxKey(root); bk != "" {
		if _, ok := heapSorts[bk]; !ok {
			heapSorts[bk] = arraySort(sortInt, sortOf(et))
		}
		return []string{bk}
	}
	if isStruct(et) {
		if len(chain) >= 2 {
			if fa, ok := chain[len(chain)-2].(*ssa.FieldAddr); ok {
				return []string{fieldHeapKey(et, fa.Field)}
			}
		}
		var ks []string
		u := et.Underlying().(*types.Struct)
		for i := 0; i < u.NumFields(); i++ {
			ks = append(ks, fieldHeapKey(et, i))
		}
		return ks
	}
	return []string{plainHeapKey(et)}
}

// instrMods accumulates the effects of one instruction.
func (e *Engine) instrMods(fn *ssa.Function, ins ssa.Instruction, ms *ModSet, cells map[*ssa.Alloc]bool, esc map[*ssa.Alloc]bool) {
	fr := e.freshOf(fn, esc)
	switch x := ins.(type) {
	case *ssa.Store:
		root := addrRoot(x.Addr)
		if a, ok := root.(*ssa.Alloc); ok && !esc[a] {
			if cells != nil {
				cells[a] = true
			}
			return
		}
		if ia, ok := root.(*ssa.IndexAddr); ok {
			// slice element store: attributes to the cell the slice was loaded from, if local
			if ld, ok := ia.X.(*ssa.UnOp); ok && ld.Op == token.MUL {
				r2 := addrRoot(ld.X)
				if a, ok := r2.(*ssa.Alloc); ok && !esc[a] {
					if cells != nil {
						cells[a] = true
					}
					return
				}
				for _, k := range heapKeysOfStore(ld.X) {
					ms.addHeap(k, modAny)
				}
			}
			ms.notes["writes through a slice element"] = true
			return
		}
		if _, ok := root.(*ssa.Global); ok {
			g := root.(*ssa.Global)
			ms.addHeap("G$"+strings.TrimPrefix(g.Pkg.Pkg.Path(), modPrefix)+"."+g.Name(), modAny)
			return
		}
		kind := modAny
		if fr[root] != 0 {
			kind = fr[root]
		}
		for _, k := range heapKeysOfStore(x.Addr) {
			ms.addHeap(k, kind)
		}
	case *ssa.MapUpdate:
		mt := x.Map.Type().Underlying().(*types.Map)
		kind := modAny
		if fr[x.Map] != 0 {
			kind = fr[x.Map]
		}
		ms.addHeap(mapHeapKey(mt), kind)
	case *ssa.Alloc:
		if cells != nil && !esc[x] {
			cells[x] = true
		}
		if esc[x] {
			et := derefType(x.Type())
			if isStruct(et) {
				u := et.Underlying().(*types.Struct)
				for i := 0; i < u.NumFields(); i++ {
					ms.addHeap(fieldHeapKey(et, i), modFresh)
				}
			} else if bk := staticBoxKey(x); bk != "" {
				if _, ok := heapSorts[bk]; !ok {
					heapSorts[bk] = arraySort(sortInt, sortOf(et))
				}
				ms.addHeap(bk, modFresh)
			} else {
				ms.addHeap(plainHeapKey(et), modFresh)
			}
		}
	case *ssa.MakeMap:
		ms.addHeap(mapHeapKey(x.Type().Underlying().(*types.Map)), modFresh)
	case *ssa.Call:
		e.callMods(fn, &x.Call, ms, fr)
	case *ssa.Defer:
		e.callMods(fn, &x.Call, ms, fr)
	case *ssa.Go:
		e.callMods(fn, &x.Call, ms, fr)
	}
}

func (e *Engine) freshOf(fn *ssa.Function, esc map[*ssa.Alloc]bool) map[ssa.Value]int {
	if m, ok := e.freshCache[fn]; ok {
		return m
	}
	m := freshValues(fn, esc, e)
	e.freshCache[fn] = m
	return m
}

func (e *Engine) callMods(fn *ssa.Function, call *ssa.CallCommon, ms *ModSet, fr map[ssa.Value]int) {
	if call.IsInvoke() {
		name := invokeName(call)
		if c := e.db.Contracts[name]; c != nil {
			e.contractMods(c, nil, ms)
			e.writesThroughIface(c, call, ms)
			return
		}
		// repo interface: union over implementers
		impls := e.implementers(call)
		for _, m := range impls {
			ms.union(e.modSetOf(m), false)
		}
		return
	}
	switch callee := call.Value.(type) {
	case *ssa.Builtin:
		if callee.Name() == "delete" {
			mt := call.Args[0].Type().Underlying().(*types.Map)
			ms.addHeap(mapHeapKey(mt), modAny)
		}
		if callee.Name() == "copy" {
			ms.notes["copy() into a slice"] = true
		}
	case *ssa.Function:
		ms.union(e.calleeMods(callee), false)
	case *ssa.MakeClosure:
		cf := callee.Fn.(*ssa.Function)
		ms.union(e.calleeMods(cf), cf.Parent() == fn)
	default:
		// function value: closed world over the address-taken named repo functions of that signature
		cands := e.funcValueCandidates(call.Signature())
		if len(cands) > 0 && len(cands) <= 8 && len(closureCandidates(call.Value)) == 0 {
			for _, c := range cands {
				ms.union(e.calleeMods(c), false)
			}
		} else if len(closureCandidates(call.Value)) == 0 {
			ms.notes["indirect call through a function value (effects of the callee not tracked)"] = true
		}
	}
	// pointers handed to callees without contract (see Frame.havocPointees)
	e.pointeeMods(call, ms)
	// closures passed as arguments may be invoked by the callee
	for _, a := range call.Args {
		for _, cfn := range closureCandidates(a) {
			ms.union(e.calleeMods(cfn), cfn.Parent() == fn)
		}
	}
	// a function value called directly: closures stored in a local
	if _, isFn := call.Value.(*ssa.Function); !isFn && !call.IsInvoke() {
		for _, cfn := range closureCandidates(call.Value) {
			ms.union(e.calleeMods(cfn), cfn.Parent() == fn)
		}
	}
}

func (e *Engine) calleeMods(callee *ssa.Function) *ModSet {
	name := shortName(callee)
	if c := e.db.Contracts[name]; c != nil && (c.HasMod || c.Assumed || len(callee.Blocks) == 0) {
		ms := newModSet()
		e.contractMods(c, callee, ms)
		return ms
	}
	if m := e.libMods(name); m != nil {
		return m
	}
	if !isRepoFn(callee) || len(callee.Blocks) == 0 {
		return newModSet()
	}
	return e.modSetOf(callee)
}

func (e *Engine) contractMods(c *Contract, fn *ssa.Function, ms *ModSet) {
	for _, m := range c.Modifies {
		if _, ok := e.db.Ghosts[m]; ok {
			ms.ghosts[m] = true
		} else if m == "clock" {
			ms.clock = true
		} else {
			kind := modAny
			if strings.HasSuffix(m, "(fresh)") {
				m = strings.TrimSuffix(m, "(fresh)")
				kind = modFresh
			}
			ms.addHeap(m, kind)
		}
	}
	for _, m := range c.Havocs {
		ms.addHeap(m, modAny)
	}
	for _, w := range c.Writes {
		t := e.paramTypeOf(c, fn, w)
		if t == nil {
			continue
		}
		et := derefType(t)
		if et == nil {
			continue
		}
		if isStruct(et) {
			u := et.Underlying().(*types.Struct)
			for i := 0; i < u.NumFields(); i++ {
				ms.addHeap(fieldHeapKey(et, i), modAny)
			}
		} else {
			ms.addHeap(plainHeapKey(et), modAny)
		}
	}
	if !c.HasMod && !c.Assumed && fn != nil && len(fn.Blocks) > 0 && isRepoFn(fn) {
		ms.union(e.modSetOf(fn), false)
	}
}

// modSetOf: inferred mod-set of a repo function body (memoised, recursion-tolerant fixpoint).
func (e *Engine) modSetOf(fn *ssa.Function) *ModSet {
	if m, ok := e.modsets[fn]; ok {
		return m
	}
	ms := newModSet()
	e.modsets[fn] = ms // provisional (recursion)
	esc := escapeAnalysis(fn)
	for iter := 0; iter < 3; iter++ {
		before := len(ms.heaps) + len(ms.ghosts)
		for _, b := range fn.Blocks {
			for _, ins := range b.Instrs {
				e.instrMods(fn, ins, ms, nil, esc)
			}
		}
		for _, an := range fn.AnonFuncs {
			_ = an
		}
		if len(ms.heaps)+len(ms.ghosts) == before && iter > 0 {
			break
		}
	}
	return ms
}

func invokeName(call *ssa.CallCommon) string {
	t := types.Unalias(call.Value.Type())
	return "(" + strings.TrimPrefix(types.TypeString(t, func(p *types.Package) string { return strings.TrimPrefix(p.Path(), modPrefix) }), "") + ")." + call.Method.Name()
}

// implementers of an interface method among repo types (class hierarchy analysis).
func (e *Engine) implementers(call *ssa.CallCommon) []*ssa.Function {
	it, ok := call.Value.Type().Underlying().(*types.Interface)
	if !ok {
		return nil
	}
	key := types.TypeString(call.Value.Type(), nil) + "." + call.Method.Name()
	if r, ok := e.implCache[key]; ok {
		return r
	}
	var out []*ssa.Function
	for _, T := range e.repoTypes {
		for _, t := range []types.Type{T, types.NewPointer(T)} {
			if types.IsInterface(t) {
				continue
			}
			if types.Implements(t, it) {
				sel := e.prog.MethodSets.MethodSet(t).Lookup(call.Method.Pkg(), call.Method.Name())
				if sel != nil {
					if m := e.prog.MethodValue(sel); m != nil {
						out = append(out, m)
					}
				}
				break
			}
		}
	}
	e.implCache[key] = out
	return out
}

// applyModSet havocs the heap arrays / ghosts in ms on state st (pre = state before, for frames).
func (f *Frame) applyModSet(st *State, pre *State, ms *ModSet, why string) {
	f.applyModSetFrame(st, pre, ms, pre.alloc)
}

// applyModSetFrame: objects with reference <= frameMark are untouched by fresh-only writes.
func (f *Frame) applyModSetFrame(st *State, pre *State, ms *ModSet, frameMark *Term) {
	var ks []string
	for k := range ms.heaps {
		ks = append(ks, k)
	}
	sort.Strings(ks)
	for _, k := range ks {
		kind := ms.heaps[k]
		if strings.HasPrefix(k, "G$") {
			srt, ok := sortTab[globalSorts[k]]
			if !ok {
				continue
			}
			st.heaps[k] = fresh("hv_"+k, srt)
			continue
		}
		if _, ok := heapSorts[k]; !ok {
			panic("modifies: unknown heap key " + k)
		}
		old := pre.heap(k)
		nh := fresh("hv_"+k, heapSorts[k])
		st.setHeap(k, nh)
		if kind == modFresh {
			// pre-existing objects are untouched
			b, r := freshBVar("r", sortInt)
			f.addHyp(tTrue(), mkQuant("forall", []BVar{b}, tImp(tLe(r, frameMark), tEq(tSelect(nh, r), tSelect(old, r)))))
		}
	}
	var gs []string
	for g := range ms.ghosts {
		gs = append(gs, g)
	}
	sort.Strings(gs)
	for _, g := range gs {
		if cur, ok := st.ghost[g]; ok {
			st.ghost[g] = fresh("gh_"+g, cur.Sort)
			if gd := f.eng.db.Ghosts[g]; gd != nil && gd.Monotone && cur.Sort == sortInt {
				f.addHyp(tTrue(), tGe(st.ghost[g], cur))
			}
		}
	}
	if len(ms.heaps) > 0 {
		na := fresh("alloc", sortInt)
		f.addHyp(tTrue(), tGe(na, pre.alloc))
		st.alloc = na
	}
	if ms.clock {
		nc := fresh("clock", sortInt)
		f.addHyp(tTrue(), tGe(nc, pre.clock))
		st.clock = nc
	}
}

// paramTypeOf resolves the type of a named parameter of a contracted function or interface method.
func (e *Engine) paramTypeOf(c *Contract, fn *ssa.Function, name string) types.Type {
	if fn == nil {
		fn = e.fnByName[c.Func]
	}
	if fn != nil {
		for _, p := range fn.Params {
			if p.Name() == name {
				return p.Type()
			}
		}
	}
	// interface method: "(pkg.Iface).Method"
	if i := strings.LastIndex(c.Func, ")."); i > 0 && strings.HasPrefix(c.Func, "(") {
		if t := e.lookupTypeByName(c.Func[1:i]); t != nil {
			if it, ok := t.Underlying().(*types.Interface); ok {
				for j := 0; j < it.NumMethods(); j++ {
					m := it.Method(j)
					if m.Name() == c.Func[i+2:] {
						sig := m.Type().(*types.Signature)
						for k := 0; k < sig.Params().Len(); k++ {
							if sig.Params().At(k).Name() == name {
								return sig.Params().At(k).Type()
							}
						}
					}
				}
			}
		}
	}
	return nil
}

// writesThroughIface: `writes p` where p is an interface-typed destination: use the static type of the
// value boxed at this call site.
func (e *Engine) writesThroughIface(c *Contract, call *ssa.CallCommon, ms *ModSet) {
	if len(c.Writes) == 0 {
		return
	}
	sig := call.Signature()
	for _, w := range c.Writes {
		for i := 0; i < sig.Params().Len() && i < len(call.Args); i++ {
			if sig.Params().At(i).Name() != w || !isInterface(sig.Params().At(i).Type()) {
				continue
			}
			if mi, ok := call.Args[i].(*ssa.MakeInterface); ok {
				if et := derefType(mi.X.Type()); et != nil {
					if isStruct(et) {
						u := et.Underlying().(*types.Struct)
						for j := 0; j < u.NumFields(); j++ {
							ms.addHeap(fieldHeapKey(et, j), modAny)
						}
					} else {
						ms.addHeap(plainHeapKey(et), modAny)
					}
				}
			} else {
				ms.notes["writes through an interface destination of unknown static type"] = true
			}
		}
	}
}

// closureCandidates: function literals a value may denote (directly, or via a local variable).
func closureCandidates(v ssa.Value) []*ssa.Function {
	return closureCands(v, map[ssa.Value]bool{})
}

func closureCands(v ssa.Value, seen map[ssa.Value]bool) []*ssa.Function {
	if seen[v] {
		return nil
	}
	seen[v] = true
	switch x := v.(type) {
	case *ssa.MakeClosure:
		return []*ssa.Function{x.Fn.(*ssa.Function)}
	case *ssa.Function:
		if x.Parent() != nil {
			return []*ssa.Function{x}
		}
	case *ssa.UnOp:
		if x.Op == token.MUL {
			if a, ok := x.X.(*ssa.Alloc); ok {
				var out []*ssa.Function
				for _, r := range *a.Referrers() {
					if st, ok := r.(*ssa.Store); ok && st.Addr == a {
						out = append(out, closureCands(st.Val, seen)...)
					}
				}
				return out
			}
		}
	case *ssa.ChangeType:
		return closureCands(x.X, seen)
	}
	return nil
}

// staticBoxKey: a non-struct local captured only by closures lives in its own heap (no aliasing with other
// pointers of the same type is possible: its address never flows anywhere else).
func staticBoxKey(v ssa.Value) string {
	switch x := v.(type) {
	case *ssa.Alloc:
		et := derefType(x.Type())
		if et == nil || isStruct(et) {
			return ""
		}
		refs := x.Referrers()
		if refs == nil {
			return ""
		}
		captured := false
		for _, r := range *refs {
			switch y := r.(type) {
			case *ssa.Store:
				if y.Val == x {
					return ""
				}
			case *ssa.UnOp, *ssa.DebugRef:
			case *ssa.MakeClosure:
				captured = true
			default:
				return ""
			}
		}
		if !captured {
			return ""
		}
		idx := 0
		for _, b := range x.Parent().Blocks {
			for _, ins := range b.Instrs {
				if a, ok := ins.(*ssa.Alloc); ok {
					if a == x {
						return "H$box$" + sanitize(shortName(x.Parent())) + "$" + sanitize(x.Comment) + "$" + itoa(idx)
					}
					idx++
				}
			}
		}
	case *ssa.FreeVar:
		fn := x.Parent()
		par := fn.Parent()
		if par == nil {
			return ""
		}
		pos := -1
		for i, fv := range fn.FreeVars {
			if fv == x {
				pos = i
			}
		}
		for _, b := range par.Blocks {
			for _, ins := range b.Instrs {
				if mc, ok := ins.(*ssa.MakeClosure); ok && mc.Fn == fn && pos >= 0 && pos < len(mc.Bindings) {
					return staticBoxKey(mc.Bindings[pos])
				}
			}
		}
	}
	return ""
}

func itoa(i int) string { return fmt.Sprintf("%d", i) }

var dbgPointee = os.Getenv("GOVC_DEBUG_POINTEE") != ""

func addPointeeKeys(et types.Type, ms *ModSet) {
	if isStruct(et) {
		u := et.Underlying().(*types.Struct)
		for j := 0; j < u.NumFields(); j++ {
			ms.addHeap(fieldHeapKey(et, j), modAny)
		}
	} else {
		ms.addHeap(plainHeapKey(et), modAny)
	}
}

func (e *Engine) pointeeMods(call *ssa.CallCommon, ms *ModSet) {
	var callee *ssa.Function
	if !call.IsInvoke() {
		callee = call.StaticCallee()
		if callee == nil {
			if mc, ok := call.Value.(*ssa.MakeClosure); ok {
				callee = mc.Fn.(*ssa.Function)
			}
		}
		if callee != nil {
			if c := e.db.Contracts[shortName(callee)]; c != nil && !c.Flags["inline"] {
				return
			}
			if _, ok := libModels[libKey(callee)]; ok {
				return
			}
			if !isRepoFn(callee) && pureExternal(callee) {
				return
			}
		}
	} else if c := e.db.Contracts[invokeName(call)]; c != nil {
		return
	}
	external := callee == nil || !isRepoFn(callee)
	if call.IsInvoke() && len(e.implementers(call)) > 0 {
		external = false // repo interface: the implementers' own writes are in their inferred frames
	}
	if callee == nil && !call.IsInvoke() {
		if len(closureCandidates(call.Value)) > 0 || len(e.funcValueCandidates(call.Signature())) > 0 {
			external = false // function value resolved by the closed-world dispatch
		}
		if _, isBuiltin := call.Value.(*ssa.Builtin); isBuiltin {
			return
		}
	}
	if dbgPointee {
		fmt.Fprintf(os.Stderr, "POINTEE call %s external=%v\n", call.String(), external)
	}
	for _, a := range call.Args {
		if mi, ok := a.(*ssa.MakeInterface); ok {
			if et := derefType(mi.X.Type()); et != nil {
				if bk := staticBoxKey(mi.X); bk == "" {
					addPointeeKeys(et, ms)
				}
			}
			continue
		}
		if external {
			if et := derefType(a.Type()); et != nil {
				if _, isIface := et.Underlying().(*types.Interface); !isIface {
					addPointeeKeys(et, ms)
				}
			}
		}
	}
}
