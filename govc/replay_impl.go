package main

func replayModel(o opts, e *Engine, ob *Obligation) (bool, map[string]interface{}) {
	return false, map[string]interface{}{"replay": "no replay harness for this function shape"}
}
