package main

// Counterexample replay for refuted postconditions of functions with a simple signature.
//
// The refuting model fixes the inputs AND the outputs the symbolic execution predicts for them (the clause is false for
// that pair). Replay = read both from the solver (get-value on watch constants, first under small-value bounds), run the
// REAL function on the inputs through `go test -overlay` (nothing is written into the repository), and compare the
// observed outputs with the predicted ones: equal => the violation is confirmed on the real code with that input.
//
// Supported shapes (everything else answers "no replay harness for this function shape"): top-level functions and
// methods without free variables; parameters / receiver of kind int*, bool, string, time.Duration, []string, []int*,
// pointer to a struct whose fields are of those scalar kinds; results int*, bool, error (nil-ness).

import (
	"bytes"
	"context"
	"fmt"
	"go/types"
	"os"
	"os/exec"
	"path/filepath"
	"regexp"
	"sort"
	"strconv"
	"strings"
	"time"

	"golang.org/x/tools/go/ssa"
)

type watchVar struct {
	name string // W!k
	term *Term
	what string // description: param path
}

type replayPlan struct {
	fn      *ssa.Function
	watches []watchVar
	file    string
	// layout
	params  []replayParam
	results []replayResult
}

type replayParam struct {
	name   string
	typ    types.Type
	kind   string // int bool string dur strs ints ptrstruct
	w      int    // watch index of the scalar / slice length / pointer
	elems  []int  // watch indices of slice elements
	fields []replayField
}

type replayField struct {
	name string
	kind string
	typ  types.Type
	w    int
}

type replayResult struct {
	kind string // int bool error
	w    int
}

const replayMaxLen = 5

func scalarKind(t types.Type) string {
	if t.String() == "time.Duration" {
		return "dur"
	}
	if b, ok := t.Underlying().(*types.Basic); ok {
		switch {
		case b.Info()&types.IsInteger != 0:
			return "int"
		case b.Info()&types.IsBoolean != 0:
			return "bool"
		case b.Info()&types.IsString != 0:
			return "string"
		}
	}
	return ""
}

// planReplay builds the watch list for a post obligation; nil if the shape is not supported.
func planReplay(ob *Obligation) *replayPlan {
	f := ob.ctx
	if os.Getenv("GOVC_DEBUG") != "" && ob.Kind == "post" {
		fmt.Fprintf(os.Stderr, "DEBUG planReplay %s ctx=%v parent=%v res=%T\n", ob.ID, f != nil, f != nil && f.parent != nil, func() Value { if f != nil { return f.exitResults }; return nil }())
	}
	if f == nil || f.parent != nil || ob.Kind != "post" || f.exitResults == nil {
		return nil
	}
	fn := f.fn
	if len(fn.FreeVars) > 0 || fn.Parent() != nil || fn.TypeParams().Len() > 0 || fn.Signature.Variadic() {
		return nil
	}
	pl := &replayPlan{fn: fn}
	add := func(t *Term, what string) int {
		pl.watches = append(pl.watches, watchVar{name: fmt.Sprintf("W!%d", len(pl.watches)), term: t, what: what})
		return len(pl.watches) - 1
	}
	for i, p := range fn.Params {
		at, ok := f.args[i].(*Term)
		if !ok {
			return nil
		}
		rp := replayParam{name: p.Name(), typ: p.Type()}
		if k := scalarKind(p.Type()); k != "" {
			rp.kind = k
			rp.w = add(at, p.Name())
		} else if sl, ok := p.Type().Underlying().(*types.Slice); ok {
			ek := scalarKind(sl.Elem())
			if ek != "string" && ek != "int" {
				return nil
			}
			rp.kind = map[string]string{"string": "strs", "int": "ints"}[ek]
			rp.w = add(slLen(at), "len("+p.Name()+")")
			for j := 0; j < replayMaxLen; j++ {
				rp.elems = append(rp.elems, add(tSelect(slArr(at), tInt(int64(j))), fmt.Sprintf("%s[%d]", p.Name(), j)))
			}
		} else if pt, ok := p.Type().Underlying().(*types.Pointer); ok {
			stt, ok := pt.Elem().Underlying().(*types.Struct)
			if !ok || specialSort(pt.Elem()) != nil {
				return nil
			}
			rp.kind = "ptrstruct"
			rp.w = add(at, p.Name())
			for j := 0; j < stt.NumFields(); j++ {
				fk := scalarKind(stt.Field(j).Type())
				if fk == "" {
					return nil
				}
				v := tSelect(f.entry.heap(fieldHeapKey(pt.Elem(), j)), at)
				rp.fields = append(rp.fields, replayField{name: stt.Field(j).Name(), kind: fk, typ: stt.Field(j).Type(), w: add(v, p.Name()+"."+stt.Field(j).Name())})
			}
		} else {
			return nil
		}
		pl.params = append(pl.params, rp)
	}
	var res []Value
	switch x := f.exitResults.(type) {
	case *Tuple:
		res = x.Elems
	case []Value:
		res = x
	case nil:
	default:
		res = []Value{x}
	}
	rs := fn.Signature.Results()
	if rs.Len() == 0 || rs.Len() != len(res) {
		return nil
	}
	for i := 0; i < rs.Len(); i++ {
		t, ok := res[i].(*Term)
		if !ok {
			return nil
		}
		k := scalarKind(rs.At(i).Type())
		if rs.At(i).Type().String() == "error" {
			k = "error"
		}
		if k != "int" && k != "bool" && k != "error" {
			return nil
		}
		pl.results = append(pl.results, replayResult{kind: k, w: add(t, fmt.Sprintf("result%d", i))})
	}
	return pl
}

// emitReplayQuery: the obligation's query with watch constants and optional small-value bounds.
func emitReplayQuery(hyps []*Term, goal *Term, pl *replayPlan, bounded bool) string {
	var extra []*Term
	var ws []*Term
	for _, w := range pl.watches {
		c := sym("replay$"+w.name, w.term.Sort)
		extra = append(extra, tEq(c, w.term))
		ws = append(ws, c)
		if bounded && w.term.Sort == sortInt {
			if strings.HasPrefix(w.what, "len(") {
				extra = append(extra, tLe(c, tInt(replayMaxLen)))
			} else if !strings.HasPrefix(w.what, "result") {
				extra = append(extra, tAnd(tLe(tInt(-32), c), tLe(c, tInt(32))))
			}
		}
	}
	q, _ := emitQuery(append(append([]*Term{}, hyps...), extra...), goal, false)
	var sb strings.Builder
	sb.WriteString(q)
	sb.WriteString("(get-value (")
	for _, c := range ws {
		sb.WriteString(" |" + c.Op[1:] + "|")
	}
	sb.WriteString("))\n")
	return sb.String()
}

var valueRe = regexp.MustCompile(`\(\|?replay\$(W![0-9]+)\|?\s+((?:\([^()]*\))|[^()\s]+)\)`)

func parseValues(out string) map[string]string {
	m := map[string]string{}
	for _, g := range valueRe.FindAllStringSubmatch(out, -1) {
		v := strings.TrimSpace(g[2])
		if strings.HasPrefix(v, "(-") {
			v = "-" + strings.TrimSpace(strings.Trim(v[2:], "() "))
		}
		m[g[1]] = v
	}
	return m
}

func replayModel(o opts, e *Engine, ob *Obligation) (bool, map[string]interface{}) {
	pl := ob.replay
	if pl == nil {
		return false, map[string]interface{}{"replay": "no replay harness for this function shape"}
	}
	var vals map[string]string
	used := ""
	for _, f := range []string{pl.file + ".bounded.smt2", pl.file + ".smt2"} {
		ctx, cancel := context.WithTimeout(context.Background(), 20*time.Second)
		cmd := exec.CommandContext(ctx, "z3-new", "-T:15", f)
		var out bytes.Buffer
		cmd.Stdout = &out
		_ = cmd.Run()
		cancel()
		txt := out.String()
		if strings.HasPrefix(strings.TrimSpace(txt), "sat") {
			vals = parseValues(txt)
			used = f
			break
		}
	}
	if vals == nil {
		return false, map[string]interface{}{"replay": "the solver gave no model for the replay query"}
	}
	get := func(i int) string { return vals[fmt.Sprintf("W!%d", i)] }
	atoi := func(s string) (int64, bool) {
		n, err := strconv.ParseInt(s, 10, 64)
		return n, err == nil
	}
	strLit := func(v string) string {
		// abstract string values: one Go literal per distinct model value
		return strconv.Quote("s" + regexp.MustCompile(`[^0-9A-Za-z]+`).ReplaceAllString(v, "_"))
	}
	inputs := map[string]interface{}{}
	var code strings.Builder
	var argNames []string
	scalarGo := func(kind string, typ types.Type, v string) (string, bool) {
		switch kind {
		case "int", "dur":
			n, ok := atoi(v)
			if !ok {
				return "", false
			}
			return fmt.Sprintf("%s(%d)", types.TypeString(typ, types.RelativeTo(pl.fn.Pkg.Pkg)), n), true
		case "bool":
			return v, v == "true" || v == "false"
		case "string":
			return strLit(v), true
		}
		return "", false
	}
	for _, p := range pl.params {
		name := "a_" + p.name
		argNames = append(argNames, name)
		switch p.kind {
		case "int", "dur", "bool", "string":
			g, ok := scalarGo(p.kind, p.typ, get(p.w))
			if !ok {
				return false, map[string]interface{}{"replay": "model value of " + p.name + " not representable: " + get(p.w)}
			}
			fmt.Fprintf(&code, "\t%s := %s\n", name, g)
			inputs[p.name] = get(p.w)
		case "strs", "ints":
			n, ok := atoi(get(p.w))
			if !ok || n < 0 || n > replayMaxLen {
				return false, map[string]interface{}{"replay": fmt.Sprintf("model needs len(%s) = %s (replay bound %d)", p.name, get(p.w), replayMaxLen)}
			}
			var el []string
			for j := int64(0); j < n; j++ {
				ek := map[string]string{"strs": "string", "ints": "int"}[p.kind]
				g, ok := scalarGo(ek, p.typ.Underlying().(*types.Slice).Elem(), get(p.elems[j]))
				if !ok {
					return false, map[string]interface{}{"replay": "model element not representable"}
				}
				el = append(el, g)
			}
			fmt.Fprintf(&code, "\t%s := %s{%s}\n", name, types.TypeString(p.typ, types.RelativeTo(pl.fn.Pkg.Pkg)), strings.Join(el, ", "))
			inputs[p.name] = el
		case "ptrstruct":
			if get(p.w) == "0" {
				fmt.Fprintf(&code, "\tvar %s %s\n", name, types.TypeString(p.typ, types.RelativeTo(pl.fn.Pkg.Pkg)))
				inputs[p.name] = "nil"
				break
			}
			var fs []string
			fm := map[string]string{}
			for _, fl := range p.fields {
				g, ok := scalarGo(fl.kind, fl.typ, get(fl.w))
				if !ok {
					return false, map[string]interface{}{"replay": "model field value not representable"}
				}
				fs = append(fs, fl.name+": "+g)
				fm[fl.name] = get(fl.w)
			}
			el := types.TypeString(p.typ.Underlying().(*types.Pointer).Elem(), types.RelativeTo(pl.fn.Pkg.Pkg))
			fmt.Fprintf(&code, "\t%s := &%s{%s}\n", name, el, strings.Join(fs, ", "))
			inputs[p.name] = fm
		}
	}
	// call
	call := ""
	if pl.fn.Signature.Recv() != nil {
		call = fmt.Sprintf("%s.%s(%s)", argNames[0], pl.fn.Name(), strings.Join(argNames[1:], ", "))
	} else {
		call = fmt.Sprintf("%s(%s)", pl.fn.Name(), strings.Join(argNames, ", "))
	}
	var rn []string
	for i := range pl.results {
		rn = append(rn, fmt.Sprintf("r%d", i))
	}
	var pr []string
	for i, r := range pl.results {
		if r.kind == "error" {
			pr = append(pr, fmt.Sprintf("r%d != nil", i))
		} else {
			pr = append(pr, fmt.Sprintf("r%d", i))
		}
	}
	needTime := strings.Contains(code.String(), "time.")
	imports := "\t\"fmt\"\n\t\"testing\"\n"
	if needTime {
		imports += "\t\"time\"\n"
	}
	src := fmt.Sprintf("package %s\n\nimport (\n%s)\n\n// generated by govc: replay of the verifier's counterexample for\n// %s\nfunc TestVerifReplayModel(t *testing.T) {\n%s\t%s := %s\n\tfmt.Println(\"VERIF-REPLAY-RESULT\", %s)\n}\n",
		pl.fn.Pkg.Pkg.Name(), imports, ob.ID, code.String(), strings.Join(rn, ", "), call, strings.Join(pr, ", "))
	// expected outputs from the model
	var expect []string
	for _, r := range pl.results {
		v := get(r.w)
		if r.kind == "error" {
			v = strconv.FormatBool(v != "0")
		}
		expect = append(expect, v)
	}
	// run on the real code
	pkgDir := filepath.Dir(e.prog.Fset.Position(pl.fn.Pos()).Filename)
	tmp, _ := os.MkdirTemp("", "govc-replay")
	defer os.RemoveAll(tmp)
	tf := filepath.Join(tmp, "zz_verif_replay_model_test.go")
	os.WriteFile(tf, []byte(src), 0o644)
	ov := filepath.Join(tmp, "ov.json")
	os.WriteFile(ov, []byte(fmt.Sprintf(`{"Replace":{%q:%q}}`, filepath.Join(pkgDir, "zz_verif_replay_model_test.go"), tf)), 0o644)
	ctx, cancel := context.WithTimeout(context.Background(), 120*time.Second)
	defer cancel()
	cmd := exec.CommandContext(ctx, "go", "test", "-tags", "verif", "-overlay", ov, "-vet=off", "-count=1", "-timeout", "60s", "-v", "-run", "TestVerifReplayModel", ".")
	cmd.Dir = pkgDir
	var out bytes.Buffer
	cmd.Stdout = &out
	cmd.Stderr = &out
	_ = cmd.Run()
	observed := ""
	for _, l := range strings.Split(out.String(), "\n") {
		if strings.HasPrefix(l, "VERIF-REPLAY-RESULT") {
			observed = strings.TrimSpace(strings.TrimPrefix(l, "VERIF-REPLAY-RESULT"))
		}
	}
	detail := map[string]interface{}{
		"replay_query": used, "inputs": inputs, "predicted_outputs": expect, "observed_outputs": observed, "test_source": src,
	}
	if observed == "" {
		tail := out.String()
		if len(tail) > 1500 {
			tail = tail[len(tail)-1500:]
		}
		detail["replay"] = "the generated test did not produce a result (panic or build failure): " + tail
		if strings.Contains(out.String(), "panic:") {
			detail["observed_outputs"] = "panic"
		}
		return false, detail
	}
	if observed == strings.Join(expect, " ") {
		detail["replay"] = "confirmed: the real function returns the outputs of the refuting model for these inputs, and the clause is false for that pair"
		return true, detail
	}
	detail["replay"] = "NOT confirmed: the real function's outputs differ from the model's prediction (engine semantics or abstraction): treat as undecided"
	return false, detail
}

var _ = sort.Strings
