package main

// Counterexample replay against the real code (go test -overlay); filled in per function shape.

func tryReplay(o opts, e *Engine, ob *Obligation, path string) (bool, map[string]interface{}) {
	if ob.Status != "refuted" || ob.Model == "" {
		return false, map[string]interface{}{"replay": "no model from the verifier (undischarged obligation)"}
	}
	return replayModel(o, e, ob)
}
