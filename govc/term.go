package main

// Hash-consed SMT term DAG with light simplification.

import (
	"fmt"
	"sort"
	"strconv"
	"strings"
)

type Sort struct {
	Name string // SMT-LIB spelling
	Kind string // "int","bool","real","usort","data","array"
	// array
	Idx, Elem *Sort
	// datatype
	Ctor   string
	Fields []DField
}

type DField struct {
	Name string // accessor name (globally unique)
	Sort *Sort
}

var (
	sortInt  = &Sort{Name: "Int", Kind: "int"}
	sortBool = &Sort{Name: "Bool", Kind: "bool"}
	sortReal = &Sort{Name: "Real", Kind: "real"}
	sortStr  = &Sort{Name: "GStr", Kind: "usort"}
)

var sortTab = map[string]*Sort{"Int": sortInt, "Bool": sortBool, "Real": sortReal, "GStr": sortStr}
var sortOrder []*Sort // declaration order for usorts/datatypes

func init() { sortOrder = append(sortOrder, sortStr) }

func usort(name string) *Sort {
	if s, ok := sortTab[name]; ok {
		return s
	}
	s := &Sort{Name: name, Kind: "usort"}
	sortTab[name] = s
	sortOrder = append(sortOrder, s)
	return s
}

func arraySort(idx, elem *Sort) *Sort {
	name := "(Array " + idx.Name + " " + elem.Name + ")"
	if s, ok := sortTab[name]; ok {
		return s
	}
	s := &Sort{Name: name, Kind: "array", Idx: idx, Elem: elem}
	sortTab[name] = s
	return s
}

// dataSort declares (or returns) a single-constructor datatype. Fields may be filled later
// (for recursive Go types via pointers the fields never mention the type itself: pointers are Int).
func dataSort(name string, mk func(s *Sort)) *Sort {
	if s, ok := sortTab[name]; ok {
		return s
	}
	s := &Sort{Name: name, Kind: "data", Ctor: "mk_" + name}
	sortTab[name] = s
	mk(s)
	sortOrder = append(sortOrder, s)
	return s
}

type BVar struct {
	Name string
	Sort *Sort
}

type Term struct {
	Op    string
	Args  []*Term
	Sort  *Sort
	Pats  [][]*Term // optional :pattern annotations (forall)
	BVars []BVar // for forall/exists
	id    int
	open  bool // mentions a bound variable (cannot be hoisted)
	size  int
}

var (
	termTab  = map[string]*Term{}
	termSeq  int
	symDecls = map[string]*FunDecl{} // declared uninterpreted symbols
	symOrder []string
)

type FunDecl struct {
	Name string
	Args []*Sort
	Ret  *Sort
}

func declFun(name string, args []*Sort, ret *Sort) *FunDecl {
	if d, ok := symDecls[name]; ok {
		return d
	}
	d := &FunDecl{name, args, ret}
	symDecls[name] = d
	symOrder = append(symOrder, name)
	return d
}

func mk(op string, sort *Sort, args ...*Term) *Term {
	var sb strings.Builder
	sb.WriteString(op)
	sb.WriteByte('|')
	sb.WriteString(sort.Name)
	for _, a := range args {
		sb.WriteByte(',')
		sb.WriteString(strconv.Itoa(a.id))
	}
	k := sb.String()
	if t, ok := termTab[k]; ok {
		return t
	}
	termSeq++
	t := &Term{Op: op, Args: args, Sort: sort, id: termSeq, size: 1}
	for _, a := range args {
		if a.open {
			t.open = true
		}
		t.size += a.size
		if t.size > 1<<30 {
			t.size = 1 << 30
		}
	}
	termTab[k] = t
	return t
}

func mkQuant(op string, bv []BVar, body *Term) *Term {
	if len(bv) == 0 {
		return body
	}
	if body.Op == "true" || body.Op == "false" {
		return body
	}
	var sb strings.Builder
	sb.WriteString(op)
	for _, b := range bv {
		sb.WriteString("|" + b.Name + ":" + b.Sort.Name)
	}
	sb.WriteString("|" + strconv.Itoa(body.id))
	k := sb.String()
	if t, ok := termTab[k]; ok {
		return t
	}
	termSeq++
	t := &Term{Op: op, Args: []*Term{body}, Sort: sortBool, BVars: bv, id: termSeq, size: body.size + 1}
	// open if body mentions bound vars other than ours
	t.open = false
	fv := map[string]bool{}
	freeBound(body, fv, map[int]bool{})
	for _, b := range bv {
		delete(fv, b.Name)
	}
	t.open = len(fv) > 0
	termTab[k] = t
	return t
}

// mkForallPat: universally quantified formula with explicit instantiation patterns.
func mkForallPat(bv []BVar, body *Term, pats ...[]*Term) *Term {
	t := mkQuant("forall", bv, body)
	if t.Op == "forall" && len(t.Pats) == 0 {
		t.Pats = pats
	}
	return t
}

// sanitizePatterns: instantiation patterns may not contain connectives, ite or (in)equalities. Spec-level patterns
// such as has(m, k) translate to guarded terms ((m != nil) and select(dom(M[m]), k)), and substituting a call's
// actual arguments into a contract's patterns can do the same; each pattern is therefore replaced by its maximal
// sub-terms that are legal and mention a bound variable. A group that no longer covers every bound variable is dropped
// (the solver then infers patterns itself). Patterns never change the meaning of a formula, only how it is instantiated.
func sanitizePatterns(q *Term) [][]*Term {
	if len(q.Pats) == 0 {
		return nil
	}
	var out [][]*Term
	for _, grp := range q.Pats {
		var ts []*Term
		seen := map[int]bool{}
		var collect func(t *Term)
		collect = func(t *Term) {
			if !t.open || seen[t.id] {
				return
			}
			seen[t.id] = true
			if t.Op == "bvar" {
				return
			}
			if patLegal(t, map[int]bool{}) {
				ts = append(ts, t)
				return
			}
			for _, a := range t.Args {
				collect(a)
			}
		}
		for _, t := range grp {
			collect(t)
		}
		cov := map[string]bool{}
		for _, t := range ts {
			freeBound(t, cov, map[int]bool{})
		}
		ok := len(ts) > 0
		for _, b := range q.BVars {
			if !cov[b.Name] {
				ok = false
			}
		}
		if ok {
			out = append(out, ts)
		}
	}
	return out
}

func patLegal(t *Term, seen map[int]bool) bool {
	if seen[t.id] {
		return true
	}
	seen[t.id] = true
	switch t.Op {
	case "ite", "and", "or", "not", "=", "=>", "<=", "<", ">=", ">", "distinct", "forall", "exists", "true", "false":
		return false
	}
	for _, a := range t.Args {
		if !patLegal(a, seen) {
			return false
		}
	}
	return true
}

func freeBound(t *Term, out map[string]bool, seen map[int]bool) {
	if !t.open || seen[t.id] {
		return
	}
	seen[t.id] = true
	if t.Op == "bvar" {
		out[t.Args[0].Op] = true
		return
	}
	if t.Op == "forall" || t.Op == "exists" {
		inner := map[string]bool{}
		freeBound(t.Args[0], inner, map[int]bool{})
		for _, b := range t.BVars {
			delete(inner, b.Name)
		}
		for k := range inner {
			out[k] = true
		}
		return
	}
	for _, a := range t.Args {
		freeBound(a, out, seen)
	}
}

var bvarSeq int

func freshBVar(hint string, s *Sort) (BVar, *Term) {
	bvarSeq++
	name := fmt.Sprintf("b_%s_%d", sanitize(hint), bvarSeq)
	return BVar{name, s}, bvarTerm(name, s)
}

func bvarTerm(name string, s *Sort) *Term {
	n := mk(name, s) // leaf carrying the name
	t := mk("bvar", s, n)
	t.open = true
	return t
}

func tTrue() *Term  { return mk("true", sortBool) }
func tFalse() *Term { return mk("false", sortBool) }
func tBool(b bool) *Term {
	if b {
		return tTrue()
	}
	return tFalse()
}
func tInt(n int64) *Term {
	return mk("#i"+strconv.FormatInt(n, 10), sortInt)
}
func tIntStr(s string) *Term { return mk("#i"+s, sortInt) }
func tReal(s string) *Term   { return mk("#r"+s, sortReal) }

func isIntConst(t *Term) (int64, bool) {
	if strings.HasPrefix(t.Op, "#i") {
		n, err := strconv.ParseInt(t.Op[2:], 10, 64)
		if err == nil {
			return n, true
		}
	}
	return 0, false
}

// sym returns a declared constant symbol.
func sym(name string, s *Sort) *Term {
	// one process verifies many functions: a parameter / local of the same name may have another sort elsewhere
	if d, ok := symDecls[name]; ok && d.Ret != s {
		name = name + "@" + s.Name
	}
	declFun(name, nil, s)
	return mk("$"+name, s)
}

var freshSeq = map[string]int{}

func fresh(hint string, s *Sort) *Term {
	h := sanitize(hint)
	freshSeq[h]++
	return sym(fmt.Sprintf("%s!%d", h, freshSeq[h]), s)
}

func app(fn string, ret *Sort, args ...*Term) *Term {
	return mk("@"+fn, ret, args...)
}

func uf(fn string, ret *Sort, args ...*Term) *Term {
	as := make([]*Sort, len(args))
	for i, a := range args {
		as[i] = a.Sort
	}
	declFun(fn, as, ret)
	return mk("@"+fn, ret, args...)
}

func tNot(a *Term) *Term {
	switch a.Op {
	case "true":
		return tFalse()
	case "false":
		return tTrue()
	case "not":
		return a.Args[0]
	}
	return mk("not", sortBool, a)
}

func tAnd(xs ...*Term) *Term {
	var out []*Term
	seen := map[int]bool{}
	var add func(x *Term) bool
	add = func(x *Term) bool {
		if x.Op == "true" {
			return true
		}
		if x.Op == "false" {
			return false
		}
		if x.Op == "and" {
			for _, y := range x.Args {
				if !add(y) {
					return false
				}
			}
			return true
		}
		if !seen[x.id] {
			seen[x.id] = true
			out = append(out, x)
		}
		return true
	}
	for _, x := range xs {
		if !add(x) {
			return tFalse()
		}
	}
	for _, x := range out {
		if x.Op == "not" && seen[x.Args[0].id] {
			return tFalse()
		}
	}
	if len(out) == 0 {
		return tTrue()
	}
	if len(out) == 1 {
		return out[0]
	}
	return mk("and", sortBool, out...)
}

func tOr(xs ...*Term) *Term {
	var out []*Term
	seen := map[int]bool{}
	var add func(x *Term) bool
	add = func(x *Term) bool {
		if x.Op == "false" {
			return true
		}
		if x.Op == "true" {
			return false
		}
		if x.Op == "or" {
			for _, y := range x.Args {
				if !add(y) {
					return false
				}
			}
			return true
		}
		if !seen[x.id] {
			seen[x.id] = true
			out = append(out, x)
		}
		return true
	}
	for _, x := range xs {
		if !add(x) {
			return tTrue()
		}
	}
	for _, x := range out {
		if x.Op == "not" && seen[x.Args[0].id] {
			return tTrue()
		}
	}
	if len(out) == 0 {
		return tFalse()
	}
	if len(out) == 1 {
		return out[0]
	}
	// factor: (a & x) | (a & y) with exactly two disjuncts sharing conjuncts stays as is
	return mk("or", sortBool, out...)
}

func tImp(a, b *Term) *Term {
	if a.Op == "true" {
		return b
	}
	if a.Op == "false" || b.Op == "true" {
		return tTrue()
	}
	if b.Op == "false" {
		return tNot(a)
	}
	if a == b {
		return tTrue()
	}
	return mk("=>", sortBool, a, b)
}

func tIff(a, b *Term) *Term { return tEq(a, b) }

func tEq(a, b *Term) *Term {
	if a == b {
		return tTrue()
	}
	if a.Sort != b.Sort {
		panic(fmt.Sprintf("tEq sort mismatch %s vs %s (%s / %s)", a.Sort.Name, b.Sort.Name, a.Op, b.Op))
	}
	if x, ok := isIntConst(a); ok {
		if y, ok := isIntConst(b); ok {
			return tBool(x == y)
		}
	}
	if a.Sort == sortBool {
		if a.Op == "true" {
			return b
		}
		if b.Op == "true" {
			return a
		}
		if a.Op == "false" {
			return tNot(b)
		}
		if b.Op == "false" {
			return tNot(a)
		}
	}
	if strings.HasPrefix(a.Op, "#s") && strings.HasPrefix(b.Op, "#s") {
		return tBool(a.Op == b.Op)
	}
	if a.id > b.id {
		a, b = b, a
	}
	return mk("=", sortBool, a, b)
}

func tIte(c, a, b *Term) *Term {
	if c.Op == "true" {
		return a
	}
	if c.Op == "false" {
		return b
	}
	if a == b {
		return a
	}
	if a.Sort != b.Sort {
		panic(fmt.Sprintf("tIte sort mismatch %s vs %s", a.Sort.Name, b.Sort.Name))
	}
	if a.Sort == sortBool {
		if a.Op == "true" && b.Op == "false" {
			return c
		}
		if a.Op == "false" && b.Op == "true" {
			return tNot(c)
		}
		if a.Op == "true" {
			return tOr(c, b)
		}
		if b.Op == "false" {
			return tAnd(c, a)
		}
		if a.Op == "false" {
			return tAnd(tNot(c), b)
		}
		if b.Op == "true" {
			return tOr(tNot(c), a)
		}
	}
	// ite(c, x, ite(c, y, z)) = ite(c,x,z)
	if b.Op == "ite" && b.Args[0] == c {
		return tIte(c, a, b.Args[2])
	}
	if a.Op == "ite" && a.Args[0] == c {
		return tIte(c, a.Args[1], b)
	}
	return mk("ite", a.Sort, c, a, b)
}

func arith(op string, a, b *Term) *Term {
	if x, ok := isIntConst(a); ok {
		if y, ok := isIntConst(b); ok {
			switch op {
			case "+":
				return tInt(x + y)
			case "-":
				return tInt(x - y)
			case "*":
				return tInt(x * y)
			}
		}
	}
	if y, ok := isIntConst(b); ok && y == 0 && (op == "+" || op == "-") {
		return a
	}
	if x, ok := isIntConst(a); ok && x == 0 && op == "+" {
		return b
	}
	return mk(op, a.Sort, a, b)
}

func tAdd(a, b *Term) *Term { return arith("+", a, b) }
func tSub(a, b *Term) *Term { return arith("-", a, b) }
func tMul(a, b *Term) *Term { return arith("*", a, b) }
func tNeg(a *Term) *Term {
	if x, ok := isIntConst(a); ok {
		return tInt(-x)
	}
	return mk("-", a.Sort, a)
}

func cmp(op string, a, b *Term) *Term {
	if x, ok := isIntConst(a); ok {
		if y, ok := isIntConst(b); ok {
			switch op {
			case "<":
				return tBool(x < y)
			case "<=":
				return tBool(x <= y)
			case ">":
				return tBool(x > y)
			case ">=":
				return tBool(x >= y)
			}
		}
	}
	if a == b {
		return tBool(op == "<=" || op == ">=")
	}
	// normalise > and >= to < and <=
	switch op {
	case ">":
		return mk("<", sortBool, b, a)
	case ">=":
		return mk("<=", sortBool, b, a)
	}
	return mk(op, sortBool, a, b)
}

func tLt(a, b *Term) *Term { return cmp("<", a, b) }
func tLe(a, b *Term) *Term { return cmp("<=", a, b) }
func tGt(a, b *Term) *Term { return cmp(">", a, b) }
func tGe(a, b *Term) *Term { return cmp(">=", a, b) }

func tSelect(arr, idx *Term) *Term {
	if arr.Sort.Kind != "array" {
		panic("select on non-array " + arr.Sort.Name)
	}
	if idx.Sort != arr.Sort.Idx {
		panic(fmt.Sprintf("select index sort %s on %s", idx.Sort.Name, arr.Sort.Name))
	}
	// select(store(a,i,v), j)
	cur := arr
	for cur.Op == "store" {
		if cur.Args[1] == idx {
			return cur.Args[2]
		}
		if definitelyDistinct(cur.Args[1], idx) {
			cur = cur.Args[0]
			continue
		}
		break
	}
	if cur.Op == "constarr" {
		return cur.Args[0]
	}
	if cur.Op == "ite" && (cur.Args[1].Op == "store" || cur.Args[2].Op == "store" || cur.Args[1].Op == "constarr" || cur.Args[2].Op == "constarr") && cur.size < 200 {
		return tIte(cur.Args[0], tSelect(cur.Args[1], idx), tSelect(cur.Args[2], idx))
	}
	return mk("select", arr.Sort.Elem, cur, idx)
}

func definitelyDistinct(a, b *Term) bool {
	if x, ok := isIntConst(a); ok {
		if y, ok := isIntConst(b); ok {
			return x != y
		}
	}
	if strings.HasPrefix(a.Op, "#s") && strings.HasPrefix(b.Op, "#s") {
		return a.Op != b.Op
	}
	// x+c1 vs x+c2
	ba, ca := splitOffset(a)
	bb, cb := splitOffset(b)
	if ba == bb && ca != cb {
		return true
	}
	return false
}

func splitOffset(t *Term) (*Term, int64) {
	if t.Op == "+" {
		if c, ok := isIntConst(t.Args[1]); ok {
			return t.Args[0], c
		}
	}
	if t.Op == "-" && len(t.Args) == 2 {
		if c, ok := isIntConst(t.Args[1]); ok {
			return t.Args[0], -c
		}
	}
	return t, 0
}

func tStore(arr, idx, v *Term) *Term {
	if v.Sort != arr.Sort.Elem {
		panic(fmt.Sprintf("store elem sort %s into %s", v.Sort.Name, arr.Sort.Name))
	}
	if idx.Sort != arr.Sort.Idx {
		panic(fmt.Sprintf("store index sort %s into %s", idx.Sort.Name, arr.Sort.Name))
	}
	if arr.Op == "store" && arr.Args[1] == idx {
		arr = arr.Args[0]
	}
	return mk("store", arr.Sort, arr, idx, v)
}

func isSMTValue(t *Term) bool {
	switch {
	case t.Op == "true" || t.Op == "false" || strings.HasPrefix(t.Op, "#i") || strings.HasPrefix(t.Op, "#r"):
		return true
	case t.Op == "constarr":
		return isSMTValue(t.Args[0])
	case strings.HasPrefix(t.Op, "#ctor"):
		for _, a := range t.Args {
			if !isSMTValue(a) {
				return false
			}
		}
		return true
	}
	return false
}

// tConstArr: constant array. cvc5 only accepts (as const ...) over values, so a constant array of a
// non-value element (e.g. an uninterpreted string constant) becomes a named array with a defining axiom.
func tConstArr(s *Sort, v *Term) *Term {
	if isSMTValue(v) {
		return mk("constarr", s, v)
	}
	name := fmt.Sprintf("carr!%d", v.id) + "!" + sanitize(s.Name)
	a := sym(name, s)
	b, i := freshBVar("i", s.Idx)
	addAxiom("def_"+name, mkQuant("forall", []BVar{b}, tEq(mk("select", s.Elem, a, i), v)), name)
	return a
}

// datatypes
func tCtor(s *Sort, args ...*Term) *Term {
	if len(args) != len(s.Fields) {
		panic("ctor arity " + s.Name)
	}
	// mk(f0(x), f1(x), ...) = x
	if len(args) > 0 && args[0].Op == "#acc"+s.Fields[0].Name {
		x := args[0].Args[0]
		all := true
		for i, a := range args {
			if a.Op != "#acc"+s.Fields[i].Name || a.Args[0] != x {
				all = false
				break
			}
		}
		if all {
			return x
		}
	}
	for i, a := range args {
		if a.Sort != s.Fields[i].Sort {
			panic(fmt.Sprintf("ctor %s field %d sort %s want %s", s.Name, i, a.Sort.Name, s.Fields[i].Sort.Name))
		}
	}
	return mk("#ctor"+s.Ctor, s, args...)
}

func tField(x *Term, i int) *Term {
	s := x.Sort
	if s.Kind != "data" {
		panic("field of non-data " + s.Name + " op " + x.Op)
	}
	if x.Op == "#ctor"+s.Ctor {
		return x.Args[i]
	}
	if x.Op == "ite" && x.size < 400 {
		return tIte(x.Args[0], tField(x.Args[1], i), tField(x.Args[2], i))
	}
	return mk("#acc"+s.Fields[i].Name, s.Fields[i].Sort, x)
}

func tWithField(x *Term, i int, v *Term) *Term {
	s := x.Sort
	args := make([]*Term, len(s.Fields))
	for j := range s.Fields {
		if j == i {
			args[j] = v
		} else {
			args[j] = tField(x, j)
		}
	}
	return tCtor(s, args...)
}

var strLits = map[string]*Term{}
var strLitOrder []string

func tStrLit(s string) *Term {
	if t, ok := strLits[s]; ok {
		return t
	}
	t := mk("#s"+strconv.Quote(s), sortStr)
	strLits[s] = t
	strLitOrder = append(strLitOrder, s)
	return t
}

func sanitize(s string) string {
	var sb strings.Builder
	for _, r := range s {
		switch {
		case r >= 'a' && r <= 'z', r >= 'A' && r <= 'Z', r >= '0' && r <= '9', r == '_', r == '.', r == '$', r == '!':
			sb.WriteRune(r)
		case r == '*':
			sb.WriteString("P")
		case r == '[':
			sb.WriteString("L")
		case r == ']':
			sb.WriteString("J")
		case r == '/':
			sb.WriteString(".")
		default:
			sb.WriteString("_")
		}
	}
	return sb.String()
}

// ---------------------------------------------------------------------------------------------
// substitution (used for macro/quantifier instantiation and old-state rebasing)

func subst(t *Term, m map[*Term]*Term) *Term {
	cache := map[int]*Term{}
	var rec func(t *Term) *Term
	rec = func(t *Term) *Term {
		if r, ok := m[t]; ok {
			return r
		}
		if len(t.Args) == 0 {
			return t
		}
		if r, ok := cache[t.id]; ok {
			return r
		}
		changed := false
		na := make([]*Term, len(t.Args))
		for i, a := range t.Args {
			na[i] = rec(a)
			if na[i] != a {
				changed = true
			}
		}
		var r *Term
		if !changed {
			r = t
		} else if t.Op == "forall" || t.Op == "exists" {
			r = mkQuant(t.Op, t.BVars, na[0])
		} else {
			r = rebuild(t, na)
		}
		cache[t.id] = r
		return r
	}
	return rec(t)
}

func rebuild(t *Term, na []*Term) *Term {
	switch t.Op {
	case "and":
		return tAnd(na...)
	case "or":
		return tOr(na...)
	case "not":
		return tNot(na[0])
	case "=>":
		return tImp(na[0], na[1])
	case "=":
		return tEq(na[0], na[1])
	case "ite":
		return tIte(na[0], na[1], na[2])
	case "select":
		return tSelect(na[0], na[1])
	case "store":
		return tStore(na[0], na[1], na[2])
	case "+", "*":
		if len(na) == 2 {
			return arith(t.Op, na[0], na[1])
		}
	case "-":
		if len(na) == 2 {
			return arith("-", na[0], na[1])
		}
		return tNeg(na[0])
	case "<", "<=":
		return cmp(t.Op, na[0], na[1])
	case "bvar":
		return t
	}
	if strings.HasPrefix(t.Op, "#acc") {
		s := na[0].Sort
		for i, f := range s.Fields {
			if "#acc"+f.Name == t.Op {
				return tField(na[0], i)
			}
		}
	}
	if strings.HasPrefix(t.Op, "#ctor") {
		return tCtor(t.Sort, na...)
	}
	r := mk(t.Op, t.Sort, na...)
	return r
}

// ---------------------------------------------------------------------------------------------
// printing

type printer struct {
	sb      *strings.Builder
	names   map[int]string // hoisted closed terms
	defs    []string
	symbols map[string]bool
	sorts   map[*Sort]bool
	strs    map[string]bool
	refcnt  map[int]int
}

func (p *printer) noteSort(s *Sort) {
	if p.sorts[s] {
		return
	}
	p.sorts[s] = true
	if s.Kind == "array" {
		p.noteSort(s.Idx)
		p.noteSort(s.Elem)
	}
	if s.Kind == "data" {
		for _, f := range s.Fields {
			p.noteSort(f.Sort)
		}
	}
}

func (p *printer) count(t *Term) {
	p.refcnt[t.id]++
	if p.refcnt[t.id] > 1 {
		return
	}
	p.noteSort(t.Sort)
	for _, b := range t.BVars {
		p.noteSort(b.Sort)
	}
	if strings.HasPrefix(t.Op, "$") {
		p.symbols[t.Op[1:]] = true
	} else if strings.HasPrefix(t.Op, "@") {
		p.symbols[t.Op[1:]] = true
	} else if strings.HasPrefix(t.Op, "#s") {
		p.strs[t.Op] = true
	}
	for _, a := range t.Args {
		p.count(a)
	}
	for _, pat := range t.Pats {
		for _, x := range pat {
			p.count(x)
		}
	}
}

func smtInt(s string) string {
	if strings.HasPrefix(s, "-") {
		return "(- " + s[1:] + ")"
	}
	return s
}

func strConstName(op string) string {
	// op = #s"..."
	return "str_" + fmt.Sprintf("%x", op[2:])
}

func (p *printer) str(t *Term) string {
	if n, ok := p.names[t.id]; ok {
		return n
	}
	var s string
	switch {
	case t.Op == "true" || t.Op == "false":
		return t.Op
	case strings.HasPrefix(t.Op, "#i"):
		return smtInt(t.Op[2:])
	case strings.HasPrefix(t.Op, "#r"):
		v := t.Op[2:]
		if strings.HasPrefix(v, "-") {
			return "(- " + v[1:] + ")"
		}
		return v
	case strings.HasPrefix(t.Op, "#s"):
		return strConstName(t.Op)
	case strings.HasPrefix(t.Op, "$"):
		return "|" + t.Op[1:] + "|"
	case t.Op == "bvar":
		return "|" + t.Args[0].Op + "|"
	case t.Op == "forall" || t.Op == "exists":
		var sb strings.Builder
		sb.WriteString("(" + t.Op + " (")
		for _, b := range t.BVars {
			sb.WriteString("(|" + b.Name + "| " + b.Sort.Name + ")")
		}
		pats := sanitizePatterns(t)
		if len(pats) > 0 {
			sb.WriteString(") (! " + p.str(t.Args[0]))
			for _, pat := range pats {
				sb.WriteString(" :pattern (")
				for i, x := range pat {
					if i > 0 {
						sb.WriteByte(' ')
					}
					sb.WriteString(p.str(x))
				}
				sb.WriteString(")")
			}
			sb.WriteString("))")
		} else {
			sb.WriteString(") " + p.str(t.Args[0]) + ")")
		}
		s = sb.String()
	case t.Op == "constarr":
		s = "((as const " + t.Sort.Name + ") " + p.str(t.Args[0]) + ")"
	case strings.HasPrefix(t.Op, "#ctor"):
		if len(t.Args) == 0 {
			s = t.Op[5:]
		} else {
			s = "(" + t.Op[5:] + p.args(t) + ")"
		}
	case strings.HasPrefix(t.Op, "#acc"):
		s = "(" + t.Op[4:] + p.args(t) + ")"
	case strings.HasPrefix(t.Op, "@"):
		if len(t.Args) == 0 {
			s = "|" + t.Op[1:] + "|"
		} else {
			s = "(|" + t.Op[1:] + "|" + p.args(t) + ")"
		}
	case t.Op == "to_real" || t.Op == "to_int" || t.Op == "div" || t.Op == "mod" || t.Op == "abs" || t.Op == "/" || t.Op == "distinct":
		s = "(" + t.Op + p.args(t) + ")"
	default:
		if len(t.Args) == 0 {
			// named leaf (bvar name holder)
			return "|" + t.Op + "|"
		}
		s = "(" + t.Op + p.args(t) + ")"
	}
	if !t.open && p.refcnt[t.id] > 1 && len(s) > 24 {
		n := fmt.Sprintf("t!%d", t.id)
		p.defs = append(p.defs, fmt.Sprintf("(define-fun |%s| () %s %s)", n, t.Sort.Name, s))
		p.names[t.id] = "|" + n + "|"
		return "|" + n + "|"
	}
	return s
}

func (p *printer) args(t *Term) string {
	var sb strings.Builder
	for _, a := range t.Args {
		sb.WriteByte(' ')
		sb.WriteString(p.str(a))
	}
	return sb.String()
}

// Axiom: a closed formula included in a query when all of its trigger symbols occur.
type Axiom struct {
	Name     string
	Body     *Term
	Triggers []string // symbol names; axiom included if ANY occurs
	Assumed  bool     // counted in the trusted base
}

var axioms []*Axiom

func addAxiom(name string, body *Term, triggers ...string) {
	for _, a := range axioms {
		if a.Name == name {
			return
		}
	}
	axioms = append(axioms, &Axiom{Name: name, Body: body, Triggers: triggers, Assumed: true})
}

// emitQuery renders: assert all hyps; assert not goal; check-sat.
func emitQuery(hyps []*Term, goal *Term, wantModel bool) (string, []string) {
	return emitQueryOpt(hyps, goal, wantModel, false)
}

func hasQuant(t *Term, seen map[int]bool) bool {
	if seen[t.id] {
		return false
	}
	seen[t.id] = true
	if t.Op == "forall" || t.Op == "exists" {
		return true
	}
	for _, a := range t.Args {
		if hasQuant(a, seen) {
			return true
		}
	}
	return false
}

// emitQueryOpt: relaxed=true drops every quantified hypothesis and axiom (fewer assumptions: an unsat answer is
// still a proof; a sat answer is only a candidate counterexample).
func emitQueryOpt(hyps []*Term, goal *Term, wantModel bool, relaxed bool) (string, []string) {
	if relaxed {
		var hs []*Term
		for _, h := range hyps {
			if !hasQuant(h, map[int]bool{}) {
				hs = append(hs, h)
			}
		}
		hyps = hs
	}
	p := &printer{names: map[int]string{}, symbols: map[string]bool{}, sorts: map[*Sort]bool{}, strs: map[string]bool{}, refcnt: map[int]int{}}
	all := append([]*Term{}, hyps...)
	neg := tNot(goal)
	all = append(all, neg)
	for _, h := range all {
		p.count(h)
	}
	// axioms: fixpoint over trigger symbols
	var used []*Axiom
	usedSet := map[*Axiom]bool{}
	for changed := true; changed; {
		changed = false
		for _, ax := range axioms {
			if usedSet[ax] {
				continue
			}
			if relaxed && hasQuant(ax.Body, map[int]bool{}) {
				continue
			}
			for _, tr := range ax.Triggers {
				if p.symbols[tr] {
					usedSet[ax] = true
					used = append(used, ax)
					p.count(ax.Body)
					changed = true
					break
				}
			}
		}
	}
	var axNames []string
	for _, ax := range used {
		axNames = append(axNames, ax.Name)
	}
	var body []string
	for _, ax := range used {
		body = append(body, "; axiom "+ax.Name+"\n(assert "+p.str(ax.Body)+")")
	}
	for _, h := range hyps {
		body = append(body, "(assert "+p.str(h)+")")
	}
	body = append(body, "; negated goal\n(assert "+p.str(neg)+")")

	var sb strings.Builder
	sb.WriteString("(set-option :produce-models true)\n(set-logic ALL)\n")
	for _, s := range sortOrder {
		if !p.sorts[s] {
			continue
		}
		if s.Kind == "usort" {
			sb.WriteString("(declare-sort " + s.Name + " 0)\n")
		} else if s.Kind == "data" {
			sb.WriteString("(declare-datatypes ((" + s.Name + " 0)) (((" + s.Ctor)
			for _, f := range s.Fields {
				sb.WriteString(" (" + f.Name + " " + f.Sort.Name + ")")
			}
			sb.WriteString("))))\n")
		}
	}
	// string literals: distinct constants
	var lits []string
	for op := range p.strs {
		lits = append(lits, op)
	}
	sort.Strings(lits)
	for _, op := range lits {
		sb.WriteString("(declare-fun " + strConstName(op) + " () GStr) ; " + op[2:] + "\n")
	}
	if len(lits) > 1 {
		sb.WriteString("(assert (distinct")
		for _, op := range lits {
			sb.WriteString(" " + strConstName(op))
		}
		sb.WriteString("))\n")
	}
	for _, name := range symOrder {
		if !p.symbols[name] {
			continue
		}
		d := symDecls[name]
		sb.WriteString("(declare-fun |" + name + "| (")
		for i, a := range d.Args {
			if i > 0 {
				sb.WriteByte(' ')
			}
			sb.WriteString(a.Name)
		}
		sb.WriteString(") " + d.Ret.Name + ")\n")
	}
	for _, d := range p.defs {
		sb.WriteString(d + "\n")
	}
	for _, b := range body {
		sb.WriteString(b + "\n")
	}
	sb.WriteString("(check-sat)\n")
	if wantModel {
		sb.WriteString("(get-model)\n")
	}
	return sb.String(), axNames
}

// ---------------------------------------------------------------------------------------------
// cone-of-influence slicing: keep the hypotheses connected to the goal through shared symbols.
// Dropping hypotheses is always sound for proving (an unsat answer with fewer assumptions is a proof).

var symCache = map[int]map[string]bool{}

func symbolsOf(t *Term) map[string]bool {
	if m, ok := symCache[t.id]; ok {
		return m
	}
	m := map[string]bool{}
	collectSyms(t, m, map[int]bool{})
	symCache[t.id] = m
	return m
}

// pathFilter: for a goal of the form (=> G body), hypotheses guarded by a condition that G contradicts literally
// ((=> H x) where a conjunct of H is the negation of a conjunct of G) say nothing on the goal's path and are dropped.
// Dropping hypotheses is always sound; it keeps the facts of the branches not taken (loop bodies behind an exit
// condition, for instance) out of the sliced query.
func pathFilter(hyps []*Term, goal *Term) []*Term {
	if goal == nil || goal.Op != "=>" {
		return hyps
	}
	pos, neg := map[int]bool{}, map[int]bool{}
	var lits func(t *Term)
	lits = func(t *Term) {
		switch {
		case t.Op == "and":
			for _, a := range t.Args {
				lits(a)
			}
		case t.Op == "not":
			neg[t.Args[0].id] = true
		default:
			pos[t.id] = true
		}
	}
	for g := goal; g.Op == "=>"; g = g.Args[1] {
		lits(g.Args[0])
	}
	var dead func(t *Term) bool
	dead = func(t *Term) bool {
		switch {
		case t.Op == "and":
			for _, a := range t.Args {
				if dead(a) {
					return true
				}
			}
			return false
		case t.Op == "not":
			return pos[t.Args[0].id]
		default:
			return neg[t.id]
		}
	}
	var out []*Term
	for _, h := range hyps {
		drop := false
		for g := h; g.Op == "=>"; g = g.Args[1] {
			if dead(g.Args[0]) {
				drop = true
				break
			}
		}
		if !drop {
			out = append(out, h)
		}
	}
	return out
}

func sliceHyps(hyps []*Term, goal *Term) []*Term {
	hyps = pathFilter(hyps, goal)
	n := len(hyps)
	syms := make([]map[string]bool, n)
	freq := map[string]int{}
	for i, h := range hyps {
		syms[i] = symbolsOf(h)
		for s := range syms[i] {
			freq[s]++
		}
	}
	// hubs: symbols that occur in a large share of the hypotheses link everything to everything
	hub := map[string]bool{}
	for s, c := range freq {
		if c > 12 && c*5 > n {
			hub[s] = true
		}
	}
	rel := map[string]bool{}
	for s := range symbolsOf(goal) {
		rel[s] = true
	}
	in := make([]bool, n)
	for changed := true; changed; {
		changed = false
		for i := range hyps {
			if in[i] {
				continue
			}
			hit := false
			nonHub := 0
			for s := range syms[i] {
				if hub[s] {
					continue
				}
				nonHub++
				if rel[s] {
					hit = true
					break
				}
			}
			if hit || nonHub == 0 {
				in[i] = true
				changed = true
				for s := range syms[i] {
					rel[s] = true
				}
			}
		}
	}
	var out []*Term
	for i, h := range hyps {
		if in[i] {
			out = append(out, h)
		}
	}
	return out
}
