package main

import (
	"strings"
	"fmt"
	"os"
	"go/types"

	"golang.org/x/tools/go/ssa"
)

// nodeStatesInParallelModel: assumed higher-order contract of app.getNodeStatesInParallel(hosts, getter, logger)
// (goroutines + a channel: outside the subset). Read off the body:
//   * err == nil: the result map has exactly the hosts as keys, and for every key k the pair (result[k], nil) satisfies the
//     [par] postconditions of getter(k); the trailing loop only writes the MasterState field of the collected states;
//   * err != nil: the result map is nil.
// Effects of the getter instances are applied through its inferred frame.
func nodeStatesInParallelModel(f *Frame, ins ssa.Instruction, call *ssa.CallCommon, ct *callTarget, st *State) Value {
	f.root.notes["assumed contract: app.getNodeStatesInParallel (err == nil: result keys = hosts, per-key [par] postconditions of the getter; err != nil: nil map)"] = true
	xs := f.asTerm(ct.args[0], ct.argTypes[0], st)
	var clo *Closure
	switch x := ct.args[1].(type) {
	case *Closure:
		clo = x
	case *Term:
		clo = f.eng.closureByTerm[x]
	}
	pre := st.clone()
	mt := call.Signature().Results().At(0).Type().Underlying().(*types.Map)
	r := f.allocRef(st, "nsres")
	key := mapHeapKey(mt)
	os := mapObjSort(mt)
	dom := fresh("nsdom", os.Fields[0].Sort)
	val := fresh("nsval", os.Fields[1].Sort)
	st.setHeap(key, tStore(st.heap(key), r, tCtor(os, dom, val)))
	errT := fresh("nserr", sortInt)
	f.addHyp(tTrue(), tGe(errT, tInt(0)))
	bk, k := freshBVar("k", sortStr)
	f.addHyp(tTrue(), mkQuant("forall", []BVar{bk}, tEq(tSelect(dom, k), containsTerm(xs, k))))
	bk0, k0 := freshBVar("k", sortStr)
	f.addHyp(tTrue(), mkQuant("forall", []BVar{bk0}, tGe(tSelect(val, k0), tInt(0))))
	res := &Tuple{Elems: []Value{tIte(tEq(errT, tInt(0)), r, tInt(0)), errT}}
	// frame: the function's own inferred frame (includes the getter through the function-value call)
	ms := newModSet()
	ms.union(f.eng.calleeMods(ct.fn), false)
	if clo != nil {
		ms.union(f.eng.calleeMods(clo.Fn), false)
	}
	f.applyModSet(st, pre, ms, "getNodeStatesInParallel")
	// re-install the result map after the frame havoc (the map heap may be in the frame)
	st.setHeap(key, tStore(st.heap(key), r, tCtor(os, dom, val)))
	if clo == nil {
		f.note("getNodeStatesInParallel with an unknown getter: per-key results unconstrained")
		return res
	}
	c := f.eng.db.Contracts[shortName(clo.Fn)]
	if c == nil {
		f.note("getNodeStatesInParallel getter without contract: per-key results unconstrained")
		return res
	}
	bq, kq := freshBVar("k", sortStr)
	nct := &callTarget{fn: clo.Fn, bindings: clo.Bindings, display: shortName(clo.Fn), args: []Value{kq}, argTypes: []types.Type{types.Typ[types.String]}, sig: clo.Fn.Signature}
	env := f.calleeEnv(c, nct, st, pre)
	env.bvars[bq.Name] = SV{t: kq, typ: types.Typ[types.String]}
	env.bindResults(&Tuple{Elems: []Value{tSelect(val, kq), tInt(0)}}, clo.Fn.Signature)
	// preconditions of the getter, for every host (sweep obligations for [safety] ones; others are checked where the
	// closure itself is verified against its callers' facts and are not part of this model)
	if f.root.safety {
		preEnv := f.calleeEnv(c, nct, pre, pre)
		preEnv.bvars[bq.Name] = SV{t: kq, typ: types.Typ[types.String]}
		for _, rq := range c.Requires {
			if !hasTag(rq.Tags, "safety") {
				continue
			}
			t, err := preEnv.formula(rq.Expr)
			if err != nil {
				f.eng.specError(c.Func, rq, err)
				continue
			}
			f.oblige(pre, "pre", "getter."+rq.Label, []string{"C20"}, rq.Tags, mkQuant("forall", []BVar{bq}, tImp(containsTerm(xs, kq), t)), ins.Pos(), rq.Text)
		}
	}
	if c.Flags["noerr"] {
		// the getter is verified never to return an error (its contract must carry `ensures ...: result1 == nil`)
		ok := false
		for _, en := range c.Ensures {
			if strings.Contains(strings.ReplaceAll(en.Text, " ", ""), "result1==nil") && !strings.Contains(en.Text, "==>") {
				ok = true
			}
		}
		if ok {
			f.addHyp(st.pc, tEq(errT, tInt(0)))
		} else {
			f.eng.specErrors = append(f.eng.specErrors, "flag noerr on "+c.Func+" without an unconditional ensures result1 == nil")
		}
	}
	var posts []*Term
	for _, en := range c.Ensures {
		if !hasTag(en.Tags, "par") {
			continue
		}
		t, err := env.formula(en.Expr)
		if err != nil {
			f.eng.specError(c.Func, en, err)
			continue
		}
		posts = append(posts, t)
	}
	if len(posts) > 0 {
		body := tImp(tAnd(tEq(errT, tInt(0)), tSelect(dom, kq)), tAnd(posts...))
		f.root.hyps = append(f.root.hyps, tImp(st.pc, mkQuant("forall", []BVar{bq}, body)))
	}
	return res
}

// syncMapLoadModel: (*sync.Map).Load through a struct field. Closed-world fact derived from the source on every run:
// if every Store / LoadOrStore / Swap / CompareAndSwap through that field in the repository stores a value of one
// static type T, a successful Load yields a value of dynamic type T.
func syncMapLoadModel(f *Frame, ins ssa.Instruction, call *ssa.CallCommon, ct *callTarget, st *State) Value {
	v := f.havocTyped(st, types.NewInterfaceType(nil, nil), "smload").(*Term)
	ok := fresh("smok", sortBool)
	res := &Tuple{Elems: []Value{v, ok}}
	fa, isFA := call.Args[0].(*ssa.FieldAddr)
	if !isFA {
		return res
	}
	T, n := f.eng.syncMapStoredType(fa)
	if os.Getenv("GOVC_DEBUG") != "" {
		fmt.Fprintln(os.Stderr, "DEBUG syncmap", T, n)
	}
	if T == nil {
		return res
	}
	f.addHyp(st.pc, tImp(ok, tAnd(tNot(tEq(v, tInt(0))), tEq(f.itag(v), tInt(f.eng.typeTag(T))))))
	f.root.notes[fmt.Sprintf("closed world: every value stored into the sync.Map field %s.%s has type %s (%d store sites scanned in the repository)", fa.X.Type().String(), fieldName(fa), T.String(), n)] = true
	return res
}

func fieldName(fa *ssa.FieldAddr) string {
	if pt, ok := fa.X.Type().Underlying().(*types.Pointer); ok {
		if stt, ok := pt.Elem().Underlying().(*types.Struct); ok {
			return stt.Field(fa.Field).Name()
		}
	}
	return "?"
}

func (e *Engine) syncMapStoredType(fa *ssa.FieldAddr) (types.Type, int) {
	var T types.Type
	n := 0
	bad := false
	for _, fn := range e.fnByName {
		if fn == nil || !isRepoFn(fn) {
			continue
		}
		for _, b := range fn.Blocks {
			for _, ins := range b.Instrs {
				c, ok := ins.(ssa.CallInstruction)
				if !ok {
					continue
				}
				cc := c.Common()
				callee := cc.StaticCallee()
				if callee == nil || callee.Signature.Recv() == nil || len(cc.Args) < 3 {
					continue
				}
				if callee.Signature.Recv().Type().String() != "*sync.Map" {
					continue
				}
				switch callee.Name() {
				case "Store", "LoadOrStore", "Swap", "CompareAndSwap":
				default:
					continue
				}
				rfa, ok := cc.Args[0].(*ssa.FieldAddr)
				if !ok {
					bad = true // a sync.Map reached through something else than a field: cannot attribute
					continue
				}
				if rfa.Field != fa.Field || !types.Identical(rfa.X.Type(), fa.X.Type()) {
					continue
				}
				val := cc.Args[len(cc.Args)-1]
				if callee.Name() == "Store" || callee.Name() == "LoadOrStore" || callee.Name() == "Swap" {
					val = cc.Args[2]
				}
				mi, ok := val.(*ssa.MakeInterface)
				if !ok {
					bad = true
					continue
				}
				n++
				if T == nil {
					T = mi.X.Type()
				} else if !types.Identical(T, mi.X.Type()) {
					bad = true
				}
			}
		}
	}
	if bad {
		return nil, n
	}
	return T, n
}
