package main

import (
	"go/types"

	"golang.org/x/tools/go/ssa"
)

// nodeStatesInParallelModel: assumed higher-order contract of app.getNodeStatesInParallel(hosts, getter, logger)
// (goroutines + a channel: outside the subset). Read off the body:
//   * err == nil: the result map has exactly the hosts as keys, and for every key k the pair (result[k], nil) satisfies the
//     [par] postconditions of getter(k); the trailing loop only writes the MasterState field of the collected states;
//   * err != nil: the result map is nil.
// Effects of the getter instances are applied through its inferred frame.
func nodeStatesInParallelModel(f *Frame, ins ssa.Instruction, call *ssa.CallCommon, ct *callTarget, st *State) Value {
	f.root.notes["assumed contract: app.getNodeStatesInParallel (err == nil: result keys = hosts, per-key [par] postconditions of the getter; err != nil: nil map)"] = true
	xs := f.asTerm(ct.args[0], ct.argTypes[0], st)
	var clo *Closure
	switch x := ct.args[1].(type) {
	case *Closure:
		clo = x
	case *Term:
		clo = f.eng.closureByTerm[x]
	}
	pre := st.clone()
	mt := call.Signature().Results().At(0).Type().Underlying().(*types.Map)
	r := f.allocRef(st, "nsres")
	key := mapHeapKey(mt)
	os := mapObjSort(mt)
	dom := fresh("nsdom", os.Fields[0].Sort)
	val := fresh("nsval", os.Fields[1].Sort)
	st.setHeap(key, tStore(st.heap(key), r, tCtor(os, dom, val)))
	errT := fresh("nserr", sortInt)
	f.addHyp(tTrue(), tGe(errT, tInt(0)))
	bk, k := freshBVar("k", sortStr)
	f.addHyp(tTrue(), mkQuant("forall", []BVar{bk}, tEq(tSelect(dom, k), containsTerm(xs, k))))
	bk0, k0 := freshBVar("k", sortStr)
	f.addHyp(tTrue(), mkQuant("forall", []BVar{bk0}, tGe(tSelect(val, k0), tInt(0))))
	res := &Tuple{Elems: []Value{tIte(tEq(errT, tInt(0)), r, tInt(0)), errT}}
	// frame: the function's own inferred frame (includes the getter through the function-value call)
	ms := newModSet()
	ms.union(f.eng.calleeMods(ct.fn), false)
	if clo != nil {
		ms.union(f.eng.calleeMods(clo.Fn), false)
	}
	f.applyModSet(st, pre, ms, "getNodeStatesInParallel")
	// re-install the result map after the frame havoc (the map heap may be in the frame)
	st.setHeap(key, tStore(st.heap(key), r, tCtor(os, dom, val)))
	if clo == nil {
		f.note("getNodeStatesInParallel with an unknown getter: per-key results unconstrained")
		return res
	}
	c := f.eng.db.Contracts[shortName(clo.Fn)]
	if c == nil {
		f.note("getNodeStatesInParallel getter without contract: per-key results unconstrained")
		return res
	}
	bq, kq := freshBVar("k", sortStr)
	nct := &callTarget{fn: clo.Fn, bindings: clo.Bindings, display: shortName(clo.Fn), args: []Value{kq}, argTypes: []types.Type{types.Typ[types.String]}, sig: clo.Fn.Signature}
	env := f.calleeEnv(c, nct, st, pre)
	env.bvars[bq.Name] = SV{t: kq, typ: types.Typ[types.String]}
	env.bindResults(&Tuple{Elems: []Value{tSelect(val, kq), tInt(0)}}, clo.Fn.Signature)
	// preconditions of the getter, for every host (sweep obligations for [safety] ones; others are checked where the
	// closure itself is verified against its callers' facts and are not part of this model)
	if f.root.safety {
		preEnv := f.calleeEnv(c, nct, pre, pre)
		preEnv.bvars[bq.Name] = SV{t: kq, typ: types.Typ[types.String]}
		for _, rq := range c.Requires {
			if !hasTag(rq.Tags, "safety") {
				continue
			}
			t, err := preEnv.formula(rq.Expr)
			if err != nil {
				f.eng.specError(c.Func, rq, err)
				continue
			}
			f.oblige(pre, "pre", "getter."+rq.Label, []string{"C20"}, rq.Tags, mkQuant("forall", []BVar{bq}, tImp(containsTerm(xs, kq), t)), ins.Pos(), rq.Text)
		}
	}
	var posts []*Term
	for _, en := range c.Ensures {
		if !hasTag(en.Tags, "par") {
			continue
		}
		t, err := env.formula(en.Expr)
		if err != nil {
			f.eng.specError(c.Func, en, err)
			continue
		}
		posts = append(posts, t)
	}
	if len(posts) > 0 {
		body := tImp(tAnd(tEq(errT, tInt(0)), tSelect(dom, kq)), tAnd(posts...))
		f.root.hyps = append(f.root.hyps, tImp(st.pc, mkQuant("forall", []BVar{bq}, body)))
	}
	return res
}
