package main

// Calls: builtins, library models, contracts (modular), inlining, havoc.

import (
	"fmt"
	"go/constant"
	"go/token"
	"go/types"
	"strings"

	"golang.org/x/tools/go/ssa"
)

const maxInlineDepth = 8

func shortName(fn *ssa.Function) string {
	s := fn.String()
	s = strings.ReplaceAll(s, modPrefix, "")
	return s
}

func (f *Frame) execCall(ins *ssa.Call, call *ssa.CallCommon, st *State) Value {
	return f.execCallCommon(ins, call, st, false)
}

type callTarget struct {
	fn       *ssa.Function
	bindings []Value
	display  string
	args     []Value
	argTypes []types.Type
	invoke   bool
	sig      *types.Signature
	recvType types.Type
}

func (f *Frame) resolveCall(call *ssa.CallCommon, st *State) (*callTarget, *ssa.Builtin) {
	ct := &callTarget{sig: call.Signature()}
	if call.IsInvoke() {
		recv := f.term(call.Value, st)
		ct.invoke = true
		ct.display = invokeName(call)
		ct.recvType = call.Value.Type()
		ct.args = append(ct.args, recv)
		ct.argTypes = append(ct.argTypes, call.Value.Type())
		for _, a := range call.Args {
			ct.args = append(ct.args, f.get(a))
			ct.argTypes = append(ct.argTypes, a.Type())
		}
		// devirtualise when the dynamic type is syntactically known
		if strings.HasPrefix(recv.Op, "@box$") {
			if bt, ok := f.eng.boxTypes[recv.Op[1:]]; ok {
				if m := f.eng.lookupMethod(bt, call.Method); m != nil {
					ct.fn = m
					ct.invoke = false
					ct.display = shortName(m)
					ct.args[0] = recv.Args[0]
					ct.argTypes[0] = bt
				}
			}
		}
		return ct, nil
	}
	for _, a := range call.Args {
		ct.args = append(ct.args, f.get(a))
		ct.argTypes = append(ct.argTypes, a.Type())
	}
	switch v := call.Value.(type) {
	case *ssa.Builtin:
		return ct, v
	case *ssa.Function:
		ct.fn = v
		ct.display = shortName(v)
		return ct, nil
	}
	x := f.get(call.Value)
	switch x := x.(type) {
	case *Closure:
		ct.fn = x.Fn
		ct.bindings = x.Bindings
		ct.display = shortName(x.Fn)
	case *FuncRef:
		ct.fn = x.Fn
		ct.display = shortName(x.Fn)
	case *Term:
		if c, ok := f.eng.closureByTerm[x]; ok {
			ct.fn = c.Fn
			ct.bindings = c.Bindings
			ct.display = shortName(c.Fn)
		} else {
			ct.display = "<func value>"
		}
	default:
		ct.display = "<func value>"
	}
	return ct, nil
}

func siteMatches(pattern, display string) bool {
	if pattern == display {
		return true
	}
	if i := strings.LastIndex(display, "."); i >= 0 && display[i+1:] == pattern {
		return true
	}
	return strings.HasSuffix(display, pattern) && strings.ContainsAny(pattern, ".)")
}

// site ordinals: k-th static occurrence (block index order) of calls whose display name matches.
func (f *Frame) siteOrdinal(ins ssa.Instruction, pattern string) int {
	if f.siteOrd == nil {
		f.siteOrd = map[ssa.Instruction]map[string]int{}
	}
	if m, ok := f.siteOrd[ins]; ok {
		if n, ok := m[pattern]; ok {
			return n
		}
	}
	n := 0
	res := 0
	for _, b := range f.fn.Blocks {
		for _, i2 := range b.Instrs {
			var cc *ssa.CallCommon
			switch x := i2.(type) {
			case *ssa.Call:
				cc = &x.Call
			case *ssa.Defer:
				cc = &x.Call
			case *ssa.Go:
				cc = &x.Call
			}
			if cc == nil {
				continue
			}
			d := staticDisplay(cc)
			if siteMatches(pattern, d) {
				n++
				if i2 == ins {
					res = n
				}
			}
		}
	}
	if f.siteOrd[ins] == nil {
		f.siteOrd[ins] = map[string]int{}
	}
	f.siteOrd[ins][pattern] = res
	return res
}

func staticDisplay(cc *ssa.CallCommon) string {
	if cc.IsInvoke() {
		return invokeName(cc)
	}
	switch v := cc.Value.(type) {
	case *ssa.Function:
		return shortName(v)
	case *ssa.MakeClosure:
		return shortName(v.Fn.(*ssa.Function))
	case *ssa.Builtin:
		return "builtin." + v.Name()
	}
	return "<func value>"
}

func (f *Frame) siteClauses(ins ssa.Instruction, call *ssa.CallCommon, after bool) []*Clause {
	if f.contract == nil {
		return nil
	}
	var out []*Clause
	d := staticDisplay(call)
	for _, c := range f.contract.AssertAt {
		if c.After != after || !siteMatches(c.Callee, d) {
			continue
		}
		if c.Nth == 0 || f.siteOrdinal(ins, c.Callee) == c.Nth {
			out = append(out, c)
		}
	}
	return out
}

func (f *Frame) execCallCommon(ins ssa.Instruction, call *ssa.CallCommon, st *State, isGo bool) Value {
	ct, bi := f.resolveCall(call, st)
	if bi != nil {
		return f.execBuiltin(ins, call, bi, ct, st)
	}
	var resType types.Type = call.Signature().Results()
	if call.Signature().Results().Len() == 1 {
		resType = call.Signature().Results().At(0).Type()
	}
	// site assertions (before)
	for _, c := range f.siteClauses(ins, call, false) {
		env := f.specEnv(st)
		env.bindCallArgs(ct, call)
		t, err := env.formula(c.Expr)
		if err != nil {
			f.eng.specError(f.name, c, err)
			continue
		}
		f.oblige(st, "assert_at", c.Label, c.Props, c.Tags, t, ins.Pos(), c.Text)
		c.Used = true
	}
	// crash invariants before effect calls
	if f.contract != nil && len(f.contract.CrashInv) > 0 && f.callHasEffects(ct, call) {
		n := f.siteOrdinal(ins, ct.display)
		f.checkCrashInv(st, ins.Pos(), fmt.Sprintf("%s#%d", lastName(ct.display), n))
	}
	pre := st.clone()
	if f.sitePC == nil {
		f.sitePC = map[ssa.Instruction]*Term{}
	}
	f.sitePC[ins] = st.pc
	res := f.dispatch(ins, call, ct, st, resType)
	// site assertions (after)
	for _, c := range f.siteClauses(ins, call, true) {
		env := f.specEnv(st)
		env.old = pre
		env.bindCallArgs(ct, call)
		env.bindResults(res, call.Signature())
		t, err := env.formula(c.Expr)
		if err != nil {
			f.eng.specError(f.name, c, err)
			continue
		}
		f.oblige(st, "assert_after", c.Label, c.Props, c.Tags, t, ins.Pos(), c.Text)
		c.Used = true
	}
	return res
}

func lastName(d string) string {
	if i := strings.LastIndex(d, "."); i >= 0 {
		return d[i+1:]
	}
	return d
}

func (f *Frame) callHasEffects(ct *callTarget, call *ssa.CallCommon) bool {
	ms := newModSet()
	f.eng.callMods(f.fn, call, ms, nil)
	return len(ms.ghosts) > 0
}

func (f *Frame) dispatch(ins ssa.Instruction, call *ssa.CallCommon, ct *callTarget, st *State, resType types.Type) Value {
	name := ct.display
	if f.root.initMode && ct.fn != nil && ct.fn.Name() == "init" && ct.fn.Parent() == nil {
		return &Tuple{} // initialiser of an imported package: not part of this package's globals
	}
	if ct.fn == nil && !ct.invoke {
		if t, ok := f.get(call.Value).(*Term); ok {
			if v := f.funcValueCall(ins, call, ct, t, st, resType); v != nil {
				return v
			}
		}
	}
	f.recvNonNil(ins, ct, st)
	// 1. Go-coded library models
	if ct.fn != nil {
		if m, ok := libModels[libKey(ct.fn)]; ok {
			return m(f, ins, call, ct, st)
		}
	}
	// 2. contracts
	if c := f.eng.db.Contracts[name]; c != nil && !c.Flags["inline"] {
		return f.applyContract(ins, c, ct, st, resType)
	}
	if ct.invoke {
		// single repo implementer with a contract?
		impls := f.eng.implementers(call)
		if len(impls) == 1 {
			m := impls[0]
			f.root.notes[fmt.Sprintf("closed world: %s dispatches to its only repo implementer %s", name, shortName(m))] = true
			recvT := m.Signature.Recv().Type()
			nct := *ct
			nct.fn = m
			nct.invoke = false
			nct.display = shortName(m)
			nct.args = append([]Value{f.unbox(ct.args[0].(*Term), recvT)}, ct.args[1:]...)
			nct.argTypes = append([]types.Type{recvT}, ct.argTypes[1:]...)
			if _, isPtr := recvT.Underlying().(*types.Pointer); isPtr {
				// a non-nil interface holding this implementer: receiver pointer may still be nil; keep unconstrained
				f.addHyp(st.pc, tGe(nct.args[0].(*Term), tInt(0)))
				if f.root.safety && f.eng.typeInvFor(recvT) != nil {
					f.addHyp(st.pc, tImp(tNot(tEq(ct.args[0].(*Term), tInt(0))), tGt(nct.args[0].(*Term), tInt(0))))
					f.root.notes["closed world: a non-nil interface value never holds a nil pointer of a type with a type invariant (obligation at every boxing site of the swept functions)"] = true
				}
			}
			f.safe(st, "nil", tNot(tEq(ct.args[0].(*Term), tInt(0))), ins.Pos(), "method call on nil interface "+call.Value.Name()+"."+call.Method.Name())
			return f.dispatch(ins, call, &nct, st, resType)
		}
		f.safe(st, "nil", tNot(tEq(ct.args[0].(*Term), tInt(0))), ins.Pos(), "method call on nil interface "+call.Value.Name()+"."+call.Method.Name())
		ms := newModSet()
		f.eng.callMods(f.fn, call, ms, nil)
		if len(impls) >= 2 && len(impls) <= 6 {
			allC := true
			for _, m := range impls {
				if c := f.eng.db.Contracts[shortName(m)]; c == nil {
					allC = false
				}
			}
			if allC {
				return f.caseSplitCall(ins, call, ct, impls, st, ms, resType)
			}
		}
		return f.havocCall(st, ms, resType, name)
	}
	if ct.fn == nil {
		f.note("indirect call through unknown function value: result havoc-ed, no effects assumed")
		return f.havocTyped(st, resType, "indirect")
	}
	// 3. inline
	if f.shouldInline(ct.fn) {
		return f.inlineCall(ins, ct, st, resType)
	}
	// 4. havoc with inferred frame
	f.havocPointees(st, ct, call)
	ms := f.eng.calleeMods(ct.fn)
	if isRepoFn(ct.fn) {
		f.root.notes["callee without contract abstracted (arbitrary results, inferred frame): "+name] = true
	} else {
		f.root.notes["external callee assumed to leave modelled state unchanged, result arbitrary: "+name] = true
	}
	return f.havocCall(st, ms, resType, name)
}

func (f *Frame) shouldInline(fn *ssa.Function) bool {
	if len(fn.Blocks) == 0 {
		return false
	}
	if f.depth >= maxInlineDepth {
		return false
	}
	for p := f; p != nil; p = p.parent {
		if p.fn == fn {
			return false
		}
	}
	name := shortName(fn)
	if c := f.eng.db.Contracts[name]; c != nil && c.Flags["inline"] {
		return true
	}
	if f.eng.inlineAll[name] {
		return true
	}
	// closures literal invoked directly, synthetic wrappers
	if fn.Parent() != nil && f.eng.db.Contracts[name] == nil {
		// anonymous function: inline when called directly in its parent
		for p := f; p != nil; p = p.parent {
			if p.fn == fn.Parent() {
				return true
			}
		}
	}
	if fn.Synthetic != "" && isRepoFn(fn) {
		return true
	}
	// thin forwarders (one basic block, a handful of instructions): inlined, reported in the notes
	if isRepoFn(fn) && f.eng.db.Contracts[name] == nil && len(fn.Blocks) == 1 {
		n := 0
		calls := 0
		for _, ins := range fn.Blocks[0].Instrs {
			switch ins.(type) {
			case *ssa.DebugRef:
			case *ssa.Call:
				calls++
				n++
			case *ssa.Go, *ssa.Defer, *ssa.Select, *ssa.Send:
				return false
			default:
				n++
			}
		}
		if n <= 40 && calls <= 2 {
			return true
		}
	}
	return false
}

func (f *Frame) inlineCall(ins ssa.Instruction, ct *callTarget, st *State, resType types.Type) Value {
	sub := f.eng.newFrame(ct.fn, f)
	f.root.notes["inlined: "+ct.display] = true
	args := make([]Value, len(ct.args))
	copy(args, ct.args)
	exit, results := sub.run(st.clone(), args, ct.bindings)
	if exit == nil {
		st.dead = true
		st.pc = tFalse()
		return f.havocOfType(resType, "noreturn")
	}
	*st = *exit
	switch len(results) {
	case 0:
		return &Tuple{}
	case 1:
		return results[0]
	}
	return &Tuple{Elems: results}
}

func (f *Frame) havocCall(st *State, ms *ModSet, resType types.Type, name string) Value {
	pre := st.clone()
	f.applyModSet(st, pre, ms, name)
	for n := range ms.notes {
		f.root.notes[name+": "+n] = true
	}
	return f.havocTyped(st, resType, "r_"+lastName(name))
}

// applyContract: assert pre, havoc frame, assume post. The callee body is not consulted.
func (f *Frame) applyContract(ins ssa.Instruction, c *Contract, ct *callTarget, st *State, resType types.Type) Value {
	nHypsBefore := len(f.root.hyps)
	if f.root.used == nil {
		f.root.used = map[string]bool{}
	}
	f.root.used[c.Func] = true
	if ct.invoke {
		f.safe(st, "nil", tNot(tEq(ct.args[0].(*Term), tInt(0))), ins.Pos(), "method call on nil interface")
	}
	env := f.calleeEnv(c, ct, st, st)
	for _, r := range c.Requires {
		t, err := env.formula(r.Expr)
		if err != nil {
			f.eng.specError(c.Func, r, err)
			continue
		}
		if hasTag(r.Tags, "safety") && !f.root.safety {
			// attribution rule: no-panic preconditions are obligations of C20 only; elsewhere they are assumed
			f.root.notes["[safety] preconditions of callees are assumed at call sites (they are obligations of the C20 sweep)"] = true
			f.addHyp(st.pc, t)
			continue
		}
		if hasTag(r.Tags, "config") || hasTag(r.Tags, "ghostdef") || hasTag(r.Tags, "inv") || hasTag(r.Tags, "obs") {
			// configuration invariant: assumed at the callee, not checked at call sites (listed in evidence)
			f.root.notes["unchecked configuration precondition of "+c.Func+": "+r.Text] = true
			f.addHyp(st.pc, t)
			continue
		}
		props := f.supportProps()
		kind := "pre"
		if hasTag(r.Tags, "safety") {
			props = []string{"C20"}
		}
		n := f.siteOrdinal(ins, ct.display)
		f.oblige(st, kind, fmt.Sprintf("%s#%d.%s", lastName(ct.display), n, r.Label), props, r.Tags, t, ins.Pos(), r.Text)
		f.addHyp(st.pc, t)
	}
	// recursion: the callee's measure must decrease
	if c.Decreases != nil && ct.fn != nil {
		for p := f; p != nil; p = p.parent {
			if p.fn == ct.fn && p.parent == nil {
				callee, err1 := env.expr(c.Decreases.Expr)
				caller, err2 := p.requiresEnv(p.entry).expr(c.Decreases.Expr)
				if err1 != nil || err2 != nil {
					f.eng.specError(c.Func, c.Decreases, fmt.Errorf("decreases: %v %v", err1, err2))
					break
				}
				f.oblige(st, "decreases", "recursion", f.supportProps(), nil, tAnd(tGe(caller.t, zeroLike(caller.t)), tLt(callee.t, caller.t)), ins.Pos(), c.Decreases.Text)
			}
		}
	}
	pre := st.clone()
	ms := newModSet()
	f.eng.contractMods(c, ct.fn, ms)
	f.applyModSet(st, pre, ms, c.Func)
	// writes <param>: the object the parameter points to is overwritten (only that object)
	for _, w := range c.Writes {
		sv, ok := env.names[w]
		if !ok || sv.typ == nil {
			f.eng.specError(c.Func, &Clause{Kind: "writes", Label: w}, fmt.Errorf("unknown parameter"))
			continue
		}
		et := derefType(sv.typ)
		ptr := sv.t
		if et == nil && isInterface(sv.typ) && strings.HasPrefix(sv.t.Op, "@box$") {
			// destination passed as interface{}: the boxed pointer's pointee is overwritten
			if bt, ok := f.eng.boxTypes[sv.t.Op[1:]]; ok {
				et = derefType(bt)
				ptr = sv.t.Args[0]
			}
		}
		if et == nil {
			f.note("writes " + w + ": destination of unknown dynamic type, effect not modelled")
			continue
		}
		sv.t = ptr
		nv := f.havocTyped(st, et, "wr_"+w).(*Term)
		st.store(&Addr{ref: sv.t, base: et, typ: et}, nv)
	}
	if c.Flags["fresh"] && st.alloc == pre.alloc {
		// the callee allocates its result: move the allocation mark, otherwise "result is new" (> old mark) and the
		// type fact "result exists" (<= current mark) contradict each other for a callee whose frame allocates nothing
		// that the engine knows of (external function) - every path behind such a call would be vacuous
		na := fresh("alloc", sortInt)
		f.addHyp(tTrue(), tGt(na, st.alloc))
		st.alloc = na
	}
	res := f.havocTyped(st, resType, "r_"+lastName(ct.display))
	if c.Flags["fresh"] {
		if t, ok := res.(*Term); ok && isPointerLike(resType) {
			f.addHyp(st.pc, tOr(tEq(t, tInt(0)), tGt(t, pre.alloc)))
		}
	}
	env2 := f.calleeEnv(c, ct, st, pre)
	env2.bindResults(res, ct.sig)
	for _, en := range c.Ensures {
		t, err := env2.formula(en.Expr)
		if err != nil {
			if strings.HasPrefix(err.Error(), "resultof") || strings.HasPrefix(err.Error(), "reached") {
				continue // clause mentions callee-internal call results: not usable at call sites (assuming less is sound)
			}
			f.eng.specError(c.Func, en, err)
			continue
		}
		f.addHyp(st.pc, t)
	}
	if c.Assumed {
		f.root.notes["assumed contract: "+c.Func] = true
		// vacuity guard: the first application of each assumed contract in a function must leave the path satisfiable
		// (if it was before) - a contradictory boundary assumption would silently prove everything behind the call
		key := "consistency:" + c.Func
		if f.root.oblSeen[key] == 0 && !f.root.initMode {
			f.root.oblSeen[key] = 1
			o := &Obligation{ID: f.root.name + "#consistency:" + lastName(ct.display), Fn: f.root.name, Kind: "consistency", Label: lastName(ct.display),
				Goal: tNot(st.pc), PC: tTrue(), ctx: f.root, nHyps: len(f.root.hyps), nBefore: nHypsBefore, Cover: true,
				Pos: f.eng.prog.Fset.Position(ins.Pos()).String(), Text: "assumed contract of " + c.Func + " leaves the path satisfiable"}
			o.Props = f.root.supportProps()
			if f.root.safety {
				o.Props = append(append([]string{}, o.Props...), "C20")
			}
			f.root.obls = append(f.root.obls, o)
		}
	}
	return res
}

func hasTag(tags []string, t string) bool {
	for _, x := range tags {
		if x == t {
			return true
		}
	}
	return false
}

// ---------------------------------------------------------------------------------------------
// builtins

func (f *Frame) execBuiltin(ins ssa.Instruction, call *ssa.CallCommon, bi *ssa.Builtin, ct *callTarget, st *State) Value {
	arg := func(i int) *Term { return f.asTerm(ct.args[i], ct.argTypes[i], st) }
	switch bi.Name() {
	case "len":
		switch u := ct.argTypes[0].Underlying().(type) {
		case *types.Slice:
			return slLen(arg(0))
		case *types.Basic:
			return strLen(arg(0))
		case *types.Map:
			return f.mapLen(st, arg(0), u)
		case *types.Array:
			return tInt(u.Len())
		case *types.Pointer:
			return tInt(u.Elem().Underlying().(*types.Array).Len())
		case *types.Chan:
			r := fresh("chanlen", sortInt)
			f.addHyp(st.pc, tGe(r, tInt(0)))
			return r
		}
	case "cap":
		if _, ok := ct.argTypes[0].Underlying().(*types.Slice); ok {
			r := uf("slice_cap", sortInt, slLen(arg(0)), slArrID(arg(0)))
			f.addHyp(st.pc, tGe(r, slLen(arg(0))))
			return r
		}
		return fresh("cap", sortInt)
	case "append":
		s := arg(0)
		if len(ct.args) < 2 {
			return s
		}
		if b, ok := ct.argTypes[1].Underlying().(*types.Basic); ok && b.Info()&types.IsString != 0 {
			f.note("append(bytes, string...) havoc-ed")
			return f.havocTyped(st, ct.argTypes[0], "append")
		}
		t := arg(1)
		return f.appendSlices(st, s, t)
	case "copy":
		f.note("copy(): destination havoc-ed")
		r := fresh("copied", sortInt)
		f.addHyp(st.pc, tGe(r, tInt(0)))
		return r
	case "delete":
		mt := ct.argTypes[0].Underlying().(*types.Map)
		f.mapDelete(st, arg(0), mt, arg(1))
		return &Tuple{}
	case "min", "max":
		r := arg(0)
		for i := 1; i < len(ct.args); i++ {
			x := arg(i)
			if bi.Name() == "min" {
				r = tIte(tLe(r, x), r, x)
			} else {
				r = tIte(tGe(r, x), r, x)
			}
		}
		return r
	case "print", "println":
		return &Tuple{}
	case "recover":
		return tInt(0)
	case "new":
		et := derefType(call.Signature().Results().At(0).Type())
		r := f.allocRef(st, "new")
		st.store(refAddr(r, et), zeroOf(et))
		return r
	case "ssa:wrapnilchk":
		x := arg(0)
		f.safe(st, "nil", tNot(tEq(x, tInt(0))), ins.Pos(), "nil receiver in wrapper")
		return x
	case "ssa:deferstack":
		return tInt(0)
	case "close", "clear":
		f.note("builtin " + bi.Name() + " ignored")
		return &Tuple{}
	case "panic":
		st.dead = true
		return &Tuple{}
	}
	f.note("builtin " + bi.Name() + " havoc-ed")
	var rt types.Type = call.Signature().Results()
	if call.Signature().Results().Len() == 1 {
		rt = call.Signature().Results().At(0).Type()
	}
	return f.havocTyped(st, rt, bi.Name())
}

func slArrID(s *Term) *Term { return tInt(int64(slArr(s).id)) }

func (f *Frame) mapLen(st *State, m *Term, mt *types.Map) *Term {
	o := f.mapObj(st, m, mt)
	dom := mapDom(o)
	name := "card$" + sanitize(dom.Sort.Name)
	r := uf(name, sortInt, dom)
	// card >= 0; card == 0 <=> empty (instantiated for this dom)
	b, k := freshBVar("k", dom.Sort.Idx)
	empty := mkQuant("forall", []BVar{b}, tNot(tSelect(dom, k)))
	f.addHyp(st.pc, tAnd(tGe(r, tInt(0)), tEq(tEq(r, tInt(0)), empty)))
	return tIte(tEq(m, tInt(0)), tInt(0), r)
}

// appendSlices: functional append of all elements of t to s.
func (f *Frame) appendSlices(st *State, s, t *Term) *Term {
	// common case: t has constant length n (varargs) -> n stores
	tl := slLen(t)
	if n, ok := isIntConst(tl); ok && n <= 8 {
		arr := slArr(s)
		for i := int64(0); i < n; i++ {
			arr = tStore(arr, tAdd(slLen(s), tInt(i)), tSelect(slArr(t), tInt(i)))
		}
		res := mkSlice(s.Sort, arr, tAdd(slLen(s), tInt(n)), tOr(slNN(s), tBool(n > 0)))
		f.appendLemmas(s, t, res, n)
		return res
	}
	arr := fresh("apparr", slArr(s).Sort)
	b, k := freshBVar("k", sortInt)
	f.addHyp(tTrue(), mkQuant("forall", []BVar{b}, tEq(tSelect(arr, k),
		tIte(tLt(k, slLen(s)), tSelect(slArr(s), k), tSelect(slArr(t), tSub(k, slLen(s)))))))
	res := mkSlice(s.Sort, arr, tAdd(slLen(s), tl), tOr(slNN(s), tGt(tl, tInt(0))))
	// membership lemmas of append(s, t...) (consequences of the element-wise definition above, stated over the
	// skolemised contains predicate so that quantified membership invariants go through)
	if !s.open && !t.open {
		cn := "contains$" + sanitize(s.Sort.Name)
		if _, used := symDecls[cn]; used {
			C := func(sl, x *Term) *Term { return app(cn, sortBool, sl, x) }
			es := slArr(s).Sort.Elem
			b1, x1 := freshBVar("x", es)
			f.root.hyps = append(f.root.hyps, mkForallPat([]BVar{b1}, tImp(C(s, x1), C(res, x1)), []*Term{C(s, x1)}, []*Term{C(res, x1)}))
			b2, x2 := freshBVar("x", es)
			f.root.hyps = append(f.root.hyps, mkForallPat([]BVar{b2}, tImp(C(t, x2), C(res, x2)), []*Term{C(t, x2)}, []*Term{C(res, x2)}))
			b3, x3 := freshBVar("x", es)
			f.root.hyps = append(f.root.hyps, mkForallPat([]BVar{b3}, tImp(C(res, x3), tOr(C(s, x3), C(t, x3))), []*Term{C(res, x3)}))
		}
	}
	return res
}

// ---------------------------------------------------------------------------------------------
// library models

type libModel func(f *Frame, ins ssa.Instruction, call *ssa.CallCommon, ct *callTarget, st *State) Value

func libKey(fn *ssa.Function) string {
	s := fn.String()
	// strip generic instantiation brackets
	if i := strings.Index(s, "["); i >= 0 {
		s = s[:i]
	}
	return s
}

var libModels map[string]libModel

func (e *Engine) libMods(name string) *ModSet {
	switch name {
	case "time.Now", "time.Since", "time.Sleep", "time.Until":
		m := newModSet()
		m.clock = true
		return m
	}
	return nil
}

func init() {
	T := func(f *Frame, ct *callTarget, st *State, i int) *Term { return f.asTerm(ct.args[i], ct.argTypes[i], st) }
	now := func(f *Frame, st *State) *Term {
		n := fresh("now", sortInt)
		f.addHyp(tTrue(), tAnd(tGe(n, st.clock), tGt(n, tInt(0))))
		st.clock = n
		return n
	}
	libModels = map[string]libModel{
		"time.Now": func(f *Frame, ins ssa.Instruction, call *ssa.CallCommon, ct *callTarget, st *State) Value {
			return now(f, st)
		},
		"time.Since": func(f *Frame, ins ssa.Instruction, call *ssa.CallCommon, ct *callTarget, st *State) Value {
			return tSub(now(f, st), T(f, ct, st, 0))
		},
		"time.Until": func(f *Frame, ins ssa.Instruction, call *ssa.CallCommon, ct *callTarget, st *State) Value {
			return tSub(T(f, ct, st, 0), now(f, st))
		},
		"time.Sleep": func(f *Frame, ins ssa.Instruction, call *ssa.CallCommon, ct *callTarget, st *State) Value {
			now(f, st)
			return &Tuple{}
		},
		"(time.Time).IsZero": func(f *Frame, ins ssa.Instruction, call *ssa.CallCommon, ct *callTarget, st *State) Value {
			return tEq(T(f, ct, st, 0), tInt(0))
		},
		"(time.Time).Before": func(f *Frame, ins ssa.Instruction, call *ssa.CallCommon, ct *callTarget, st *State) Value {
			return tLt(T(f, ct, st, 0), T(f, ct, st, 1))
		},
		"(time.Time).After": func(f *Frame, ins ssa.Instruction, call *ssa.CallCommon, ct *callTarget, st *State) Value {
			return tGt(T(f, ct, st, 0), T(f, ct, st, 1))
		},
		"(time.Time).Equal": func(f *Frame, ins ssa.Instruction, call *ssa.CallCommon, ct *callTarget, st *State) Value {
			return tEq(T(f, ct, st, 0), T(f, ct, st, 1))
		},
		"(time.Time).Sub": func(f *Frame, ins ssa.Instruction, call *ssa.CallCommon, ct *callTarget, st *State) Value {
			return tSub(T(f, ct, st, 0), T(f, ct, st, 1))
		},
		"(time.Time).Add": func(f *Frame, ins ssa.Instruction, call *ssa.CallCommon, ct *callTarget, st *State) Value {
			return tAdd(T(f, ct, st, 0), T(f, ct, st, 1))
		},
		"(time.Duration).Seconds": func(f *Frame, ins ssa.Instruction, call *ssa.CallCommon, ct *callTarget, st *State) Value {
			return mk("/", sortReal, mk("to_real", sortReal, T(f, ct, st, 0)), tReal("1000000000.0"))
		},
		"(*sync.Map).Load":       syncMapLoadModel,
		"(*sync.Mutex).Lock":     noop,
		"(*sync.Mutex).Unlock":   noop,
		"(*sync.RWMutex).Lock":   noop,
		"(*sync.RWMutex).Unlock": noop,
		"(*sync.RWMutex).RLock":  noop,
		"(*sync.RWMutex).RUnlock": noop,
		"errors.New": func(f *Frame, ins ssa.Instruction, call *ssa.CallCommon, ct *callTarget, st *State) Value {
			return f.newError(st, nil)
		},
		"fmt.Errorf": func(f *Frame, ins ssa.Instruction, call *ssa.CallCommon, ct *callTarget, st *State) Value {
			// %w: wraps the error-typed variadic argument
			var wrapped *Term
			if c, ok := call.Args[0].(*ssa.Const); ok && c.Value != nil && c.Value.Kind() == constant.String && strings.Contains(constant.StringVal(c.Value), "%w") {
				wrapped = f.findWrappedError(call, st)
				if wrapped == nil {
					f.note("fmt.Errorf %w: wrapped error not identified; chain unknown")
					return f.newErrorUnknownChain(st)
				}
			}
			return f.newError(st, wrapped)
		},
		"errors.Is": func(f *Frame, ins ssa.Instruction, call *ssa.CallCommon, ct *callTarget, st *State) Value {
			return errIs(T(f, ct, st, 0), T(f, ct, st, 1))
		},
		"errors.As": func(f *Frame, ins ssa.Instruction, call *ssa.CallCommon, ct *callTarget, st *State) Value {
			e := T(f, ct, st, 0)
			r := fresh("errors_as", sortBool)
			f.addHyp(st.pc, tImp(tEq(e, tInt(0)), tNot(r)))
			// target pointee is overwritten when found
			if a, ok := ct.args[1].(*Term); ok && strings.HasPrefix(a.Op, "@box$") {
				ptr := a.Args[0]
				if bt, ok := f.eng.boxTypes[a.Op[1:]]; ok {
					if et := derefType(bt); et != nil && !isStruct(et) {
						key := plainHeapKey(et)
						nv := f.havocTyped(st, et, "as_target").(*Term)
						h := st.heap(key)
						st.setHeap(key, tIte(r, tStore(h, ptr, nv), h))
						if isPointerLike(et) {
							f.addHyp(st.pc, tImp(r, tNot(tEq(nv, tInt(0)))))
						}
					}
				}
			}
			return r
		},
		"github.com/yandex/mysync/internal/util.RunParallel": runParallelModel,
		"github.com/yandex/mysync/internal/app.getNodeStatesInParallel": nodeStatesInParallelModel,
		"github.com/yandex/mysync/internal/util.FilterStrings": filterStringsModel,
		"math.Floor": func(f *Frame, ins ssa.Instruction, call *ssa.CallCommon, ct *callTarget, st *State) Value {
			return mk("to_real", sortReal, mk("to_int", sortInt, T(f, ct, st, 0)))
		},
		"strings.Index": func(f *Frame, ins ssa.Instruction, call *ssa.CallCommon, ct *callTarget, st *State) Value {
			return strIndex(f, st, T(f, ct, st, 0), T(f, ct, st, 1))
		},
		"slices.Contains": func(f *Frame, ins ssa.Instruction, call *ssa.CallCommon, ct *callTarget, st *State) Value {
			return containsTerm(T(f, ct, st, 0), T(f, ct, st, 1))
		},
		"sort.Strings": func(f *Frame, ins ssa.Instruction, call *ssa.CallCommon, ct *callTarget, st *State) Value {
			s := T(f, ct, st, 0)
			ns := fresh("sorted", s.Sort)
			bi, i := freshBVar("i", sortInt)
			bj, j := freshBVar("j", sortInt)
			bx, x := freshBVar("x", sortStr)
			f.addHyp(st.pc, tAnd(tEq(slLen(ns), slLen(s)), tEq(slNN(ns), slNN(s)),
				mkQuant("forall", []BVar{bi, bj}, tImp(tAnd(tLe(tInt(0), i), tLt(i, j), tLt(j, slLen(ns))), tNot(strLt(tSelect(slArr(ns), j), tSelect(slArr(ns), i))))),
				mkQuant("forall", []BVar{bx}, tEq(containsTerm(ns, x), containsTerm(s, x)))))
			if o, ok := f.origin[call.Args[0]]; ok && o.detached == nil {
				st.store(o, ns)
			} else {
				f.note("sort.Strings on a slice without known origin: effect lost")
			}
			return &Tuple{}
		},
	}
}

func noop(f *Frame, ins ssa.Instruction, call *ssa.CallCommon, ct *callTarget, st *State) Value {
	return &Tuple{}
}

// containsTerm: membership of x in slice s, as an uninterpreted predicate with skolemised definition
// (no existential quantifier in the formula: (a) every element is a member, (b) a member has a witness index).
func containsTerm(s, x *Term) *Term {
	es := x.Sort
	cn := "contains$" + sanitize(s.Sort.Name)
	wn := "witness$" + sanitize(s.Sort.Name)
	declFun(cn, []*Sort{s.Sort, es}, sortBool)
	declFun(wn, []*Sort{s.Sort, es}, sortInt)
	bs, sv := freshBVar("s", s.Sort)
	bi, iv := freshBVar("i", sortInt)
	bx, xv := freshBVar("x", es)
	elem := tSelect(slArr(sv), iv)
	member := app(cn, sortBool, sv, elem)
	axA := mkForallPat([]BVar{bs, bi}, tImp(tAnd(tLe(tInt(0), iv), tLt(iv, slLen(sv))), member), []*Term{elem})
	w := app(wn, sortInt, sv, xv)
	cx := app(cn, sortBool, sv, xv)
	axB := mkForallPat([]BVar{bs, bx}, tImp(cx, tAnd(tLe(tInt(0), w), tLt(w, slLen(sv)), tEq(tSelect(slArr(sv), w), xv))), []*Term{cx})
	addAxiom("def_"+cn, tAnd(axA, axB), cn)
	return app(cn, sortBool, s, x)
}

func errIs(e, target *Term) *Term {
	declFun("err_is", []*Sort{sortInt, sortInt}, sortBool)
	addAxiom("err_is_basic", func() *Term {
		ba, a := freshBVar("e", sortInt)
		bb, t := freshBVar("t", sortInt)
		is := func(x, y *Term) *Term { return app("err_is", sortBool, x, y) }
		return tAnd(
			mkQuant("forall", []BVar{ba}, tImp(tNot(tEq(a, tInt(0))), is(a, a))),
			mkQuant("forall", []BVar{bb}, tImp(tNot(tEq(t, tInt(0))), tNot(is(tInt(0), t)))))
	}(), "err_is")
	return app("err_is", sortBool, e, target)
}

// newError: a fresh non-nil error value; when wrapping, errors.Is follows the chain.
func (f *Frame) newError(st *State, wrapped *Term) *Term {
	e := fresh("err", sortInt)
	f.addHyp(tTrue(), tGt(e, tInt(0)))
	f.addHyp(tTrue(), tEq(f.itag(e), tInt(f.eng.typeTagByName("*errors.errorString"))))
	b, t := freshBVar("t", sortInt)
	if wrapped != nil {
		f.addHyp(tTrue(), mkQuant("forall", []BVar{b}, tImp(tNot(tEq(t, e)), tEq(errIs(e, t), errIs(wrapped, t)))))
	} else {
		f.addHyp(tTrue(), mkQuant("forall", []BVar{b}, tImp(tNot(tEq(t, e)), tNot(errIs(e, t)))))
	}
	return e
}

func (f *Frame) newErrorUnknownChain(st *State) *Term {
	e := fresh("err", sortInt)
	f.addHyp(tTrue(), tGt(e, tInt(0)))
	return e
}

func (e *Engine) typeTagByName(n string) int64 {
	if id, ok := e.tags[n]; ok {
		return id
	}
	id := int64(len(e.tags) + 1)
	e.tags[n] = id
	return id
}

// findWrappedError: the error-typed element stored into the varargs array of fmt.Errorf.
func (f *Frame) findWrappedError(call *ssa.CallCommon, st *State) *Term {
	if len(call.Args) < 2 {
		return nil
	}
	sl, ok := call.Args[1].(*ssa.Slice)
	if !ok {
		return nil
	}
	alloc, ok := sl.X.(*ssa.Alloc)
	if !ok {
		return nil
	}
	var found *Term
	n := 0
	for _, r := range *alloc.Referrers() {
		ia, ok := r.(*ssa.IndexAddr)
		if !ok {
			continue
		}
		for _, r2 := range *ia.Referrers() {
			s, ok := r2.(*ssa.Store)
			if !ok {
				continue
			}
			var src ssa.Value = s.Val
			if mi, ok := src.(*ssa.MakeInterface); ok {
				src = mi.X
			}
			if ci, ok := src.(*ssa.ChangeInterface); ok {
				src = ci.X
			}
			if types.Identical(src.Type(), types.Universe.Lookup("error").Type()) {
				n++
				found = f.term(src, st)
			}
		}
	}
	if n == 1 {
		return found
	}
	return nil
}

var _ = token.NoPos

// caseSplitCall: closed-world dispatch over the repo implementers of an interface method, each under its
// own contract: assume (dynamic type is T_i) ==> post_i, and that the dynamic type is one of them.
func (f *Frame) caseSplitCall(ins ssa.Instruction, call *ssa.CallCommon, ct *callTarget, impls []*ssa.Function, st *State, ms *ModSet, resType types.Type) Value {
	recv := ct.args[0].(*Term)
	f.root.notes[fmt.Sprintf("closed world: %s dispatches over its %d repo implementers", ct.display, len(impls))] = true
	pre := st.clone()
	var tagConds []*Term
	// preconditions of each implementer under its tag
	for _, m := range impls {
		c := f.eng.db.Contracts[shortName(m)]
		recvT := m.Signature.Recv().Type()
		is := tEq(f.itag(recv), tInt(f.eng.typeTag(recvT)))
		tagConds = append(tagConds, is)
		nct := *ct
		nct.fn = m
		nct.invoke = false
		nct.display = shortName(m)
		nct.args = append([]Value{f.unbox(recv, recvT)}, ct.args[1:]...)
		nct.argTypes = append([]types.Type{recvT}, ct.argTypes[1:]...)
		env := f.calleeEnv(c, &nct, st, st)
		for _, r := range c.Requires {
			if hasTag(r.Tags, "safety") && !f.root.safety {
				continue
			}
			t, err := env.formula(r.Expr)
			if err != nil {
				f.eng.specError(c.Func, r, err)
				continue
			}
			if hasTag(r.Tags, "config") || hasTag(r.Tags, "ghostdef") || hasTag(r.Tags, "inv") || hasTag(r.Tags, "obs") {
				f.addHyp(tAnd(st.pc, is), t)
				continue
			}
			props := f.supportProps()
			if hasTag(r.Tags, "safety") {
				props = []string{"C20"}
			}
			n := f.siteOrdinal(ins, ct.display)
			f.oblige(st, "pre", fmt.Sprintf("%s#%d.%s", lastName(nct.display), n, r.Label), props, r.Tags, tImp(is, t), ins.Pos(), r.Text)
		}
	}
	f.addHyp(st.pc, tOr(tagConds...))
	f.applyModSet(st, pre, ms, ct.display)
	res := f.havocTyped(st, resType, "r_"+lastName(ct.display))
	for i, m := range impls {
		c := f.eng.db.Contracts[shortName(m)]
		recvT := m.Signature.Recv().Type()
		nct := *ct
		nct.fn = m
		nct.invoke = false
		nct.display = shortName(m)
		nct.args = append([]Value{f.unbox(recv, recvT)}, ct.args[1:]...)
		nct.argTypes = append([]types.Type{recvT}, ct.argTypes[1:]...)
		env2 := f.calleeEnv(c, &nct, st, pre)
		env2.bindResults(res, ct.sig)
		for _, en := range c.Ensures {
			t, err := env2.formula(en.Expr)
			if err != nil {
				f.eng.specError(c.Func, en, err)
				continue
			}
			f.addHyp(tAnd(st.pc, tagConds[i]), t)
		}
	}
	return res
}

func strIndex(f *Frame, st *State, s, sep *Term) *Term {
	r := uf("str_index", sortInt, s, sep)
	f.addHyp(st.pc, tAnd(tLe(tInt(-1), r), tLe(r, strLen(s))))
	return r
}

// runParallelModel: assumed higher-order contract of util.RunParallel(f, xs):
//   * the result map has exactly the keys of xs;
//   * for each key k the pair (k, result[k]) satisfies the [par]-tagged postconditions of f (facts about f's own
//     key only: each instance writes per-host ghost cells only at its own key, which is a verified postcondition
//     of the closure, so parallel composition preserves them);
//   * per-host ghost maps are unchanged at hosts that are not arguments; integer effect counters only grow.
func runParallelModel(f *Frame, ins ssa.Instruction, call *ssa.CallCommon, ct *callTarget, st *State) Value {
	f.root.notes["assumed contract: util.RunParallel (result keys = arguments; per-key [par] postconditions of the closure; frame at other hosts)"] = true
	xs := f.asTerm(ct.args[1], ct.argTypes[1], st)
	var clo *Closure
	switch x := ct.args[0].(type) {
	case *Closure:
		clo = x
	case *Term:
		clo = f.eng.closureByTerm[x]
	}
	pre := st.clone()
	mt := call.Signature().Results().At(0).Type().Underlying().(*types.Map)
	// fresh result map
	r := f.allocRef(st, "parres")
	key := mapHeapKey(mt)
	os := mapObjSort(mt)
	dom := fresh("pardom", os.Fields[0].Sort)
	val := fresh("parval", os.Fields[1].Sort)
	st.setHeap(key, tStore(st.heap(key), r, tCtor(os, dom, val)))
	bk, k := freshBVar("k", sortStr)
	f.addHyp(tTrue(), mkQuant("forall", []BVar{bk}, tEq(tSelect(dom, k), containsTerm(xs, k))))
	bk0, k0 := freshBVar("k", sortStr)
	f.addHyp(tTrue(), mkQuant("forall", []BVar{bk0}, tGe(tSelect(val, k0), tInt(0))))
	if clo == nil {
		f.note("RunParallel with an unknown function value: effects not modelled")
		return r
	}
	ms := f.eng.calleeMods(clo.Fn)
	f.applyModSet(st, pre, ms, "RunParallel")
	// frame of per-host ghost maps at non-argument hosts
	for g := range ms.ghosts {
		cur, old := st.ghost[g], pre.ghost[g]
		if cur == nil || cur.Sort.Kind != "array" || cur.Sort.Idx != sortStr {
			continue
		}
		bh, h := freshBVar("h", sortStr)
		f.addHyp(tTrue(), mkQuant("forall", []BVar{bh}, tImp(tNot(containsTerm(xs, h)), tEq(tSelect(cur, h), tSelect(old, h)))))
	}
	c := f.eng.db.Contracts[shortName(clo.Fn)]
	if c == nil {
		f.note("RunParallel closure without contract: per-key results unconstrained")
		return r
	}
	// parallel append to captured slices (parelem): every element afterwards was there before or was appended
	// by the instance of some argument
	for _, pe := range c.ParElem {
		for bi2, fv := range clo.Fn.FreeVars {
			if fv.Name() != pe.Callee || bi2 >= len(clo.Bindings) {
				continue
			}
			et := derefType(fv.Type())
			sl, ok := et.Underlying().(*types.Slice)
			if !ok {
				continue
			}
			var addr *Addr
			switch x := clo.Bindings[bi2].(type) {
			case *Term:
				addr = refAddr(x, et)
			case *Addr:
				addr = x
			}
			if addr == nil {
				continue
			}
			oldv := pre.load(addr)
			newv := st.load(addr)
			bi, i := freshBVar("i", sortInt)
			bj, j := freshBVar("j", sortInt)
			bkk, kk := freshBVar("k", sortStr)
			pct := &callTarget{fn: clo.Fn, bindings: clo.Bindings, display: shortName(clo.Fn), args: []Value{kk}, argTypes: []types.Type{types.Typ[types.String]}, sig: clo.Fn.Signature}
			penv := f.calleeEnv(c, pct, st, pre)
			penv.names[pe.Label] = SV{t: tSelect(slArr(newv), i), typ: sl.Elem()}
			pred, err := penv.formula(pe.Expr)
			if err != nil {
				f.eng.specError(c.Func, pe, err)
				continue
			}
			was := mkQuant("exists", []BVar{bj}, tAnd(tLe(tInt(0), j), tLt(j, slLen(oldv)), tEq(tSelect(slArr(newv), i), tSelect(slArr(oldv), j))))
			app := mkQuant("exists", []BVar{bkk}, tAnd(containsTerm(xs, kk), pred))
			f.root.hyps = append(f.root.hyps, tImp(st.pc, mkQuant("forall", []BVar{bi}, tImp(tAnd(tLe(tInt(0), i), tLt(i, slLen(newv))), tOr(was, app)))))
		}
	}
	// per-key [par] postconditions
	bq, kq := freshBVar("k", sortStr)
	nct := &callTarget{fn: clo.Fn, bindings: clo.Bindings, display: shortName(clo.Fn), args: []Value{kq}, argTypes: []types.Type{types.Typ[types.String]}, sig: clo.Fn.Signature}
	if f.root.safety {
		// [safety] preconditions of the closure must hold for every argument (sweep obligation)
		preEnv := f.calleeEnv(c, nct, pre, pre)
		preEnv.bvars[bq.Name] = SV{t: kq, typ: types.Typ[types.String]}
		for _, rq := range c.Requires {
			if !hasTag(rq.Tags, "safety") {
				continue
			}
			t, err := preEnv.formula(rq.Expr)
			if err != nil {
				f.eng.specError(c.Func, rq, err)
				continue
			}
			f.oblige(pre, "pre", "RunParallel."+rq.Label, []string{"C20"}, rq.Tags, mkQuant("forall", []BVar{bq}, tImp(containsTerm(xs, kq), t)), ins.Pos(), rq.Text)
		}
	}
	env := f.calleeEnv(c, nct, st, pre)
	env.bvars[bq.Name] = SV{t: kq, typ: types.Typ[types.String]}
	env.bindResults(tSelect(val, kq), clo.Fn.Signature)
	var posts []*Term
	for _, en := range c.Ensures {
		if !hasTag(en.Tags, "par") {
			continue
		}
		t, err := env.formula(en.Expr)
		if err != nil {
			f.eng.specError(c.Func, en, err)
			continue
		}
		posts = append(posts, t)
	}
	if len(posts) > 0 {
		body := tImp(tSelect(dom, kq), tAnd(posts...))
		q := mkQuant("forall", []BVar{bq}, body)
		// pc-guarded, added directly (body is closed under the binder)
		f.root.hyps = append(f.root.hyps, tImp(st.pc, q))
	}
	return r
}

// pureExternal: library packages whose functions do not write through their arguments (formatting, logging,
// string/number helpers, clocks, synchronisation, file status).
func pureExternal(fn *ssa.Function) bool {
	p := ""
	if fn.Pkg != nil {
		p = fn.Pkg.Pkg.Path()
	} else if fn.Signature.Recv() != nil {
		p = fn.Signature.Recv().Type().String()
	} else {
		p = fn.String()
	}
	p = strings.TrimLeft(p, "(*")
	for _, pre := range []string{"github.com/rs/zerolog", "fmt", "strings", "strconv", "errors", "time", "math", "slices", "sort", "os", "context", "sync", "bytes", "unicode", "path", "net", "github.com/yandex/mysync/internal/log", "log/syslog", "github.com/google/uuid", "regexp", "sync/atomic", "github.com/go-mysql-org/go-mysql/mysql"} {
		if p == pre || strings.HasPrefix(p, pre+".") || strings.HasPrefix(p, pre+"/") {
			return true
		}
	}
	return false
}

// havocPointees: a callee that is not under contract may write through pointers it receives. Direct pointer
// arguments of repo callees are covered by the inferred frame; what the frame inference cannot see is
//   * pointers boxed into interface values (dest any), for every callee, and
//   * pointer arguments of external (non-pure) library functions.
func (f *Frame) havocPointees(st *State, ct *callTarget, call *ssa.CallCommon) {
	if ct.fn != nil && !isRepoFn(ct.fn) && pureExternal(ct.fn) {
		return
	}
	external := ct.fn == nil || !isRepoFn(ct.fn)
	if call.IsInvoke() && len(f.eng.implementers(call)) > 0 {
		external = false
	}
	if ct.fn == nil && !call.IsInvoke() && len(f.eng.funcValueCandidates(call.Signature())) > 0 {
		external = false
	}
	for i, a := range ct.args {
		t, ok := a.(*Term)
		if !ok {
			continue
		}
		var ptr *Term
		var et types.Type
		if strings.HasPrefix(t.Op, "@box$") {
			if bt, ok := f.eng.boxTypes[t.Op[1:]]; ok {
				et = derefType(bt)
				ptr = t.Args[0]
			}
		} else if external && i < len(ct.argTypes) {
			if et = derefType(ct.argTypes[i]); et != nil {
				ptr = t
			}
		}
		if ptr == nil || et == nil {
			continue
		}
		if _, isIface := et.Underlying().(*types.Interface); isIface && !external {
			continue
		}
		nv := f.havocTyped(st, et, "wrptr").(*Term)
		cur := st.load(refAddr(ptr, et))
		// only when the pointer is non-nil does the object exist; writing a havoc value is harmless either way
		_ = cur
		st.store(refAddr(ptr, et), nv)
		f.root.notes["objects reachable through a pointer passed to a callee without contract are havoc-ed (boxed pointers; pointer arguments of non-pure library functions)"] = true
	}
}

// appendLemmas: membership facts for res = append(s, t...) with n appended elements. They are consequences of the
// skolemised definition of contains (so adding them is sound); stating them spares the solver a witness search.
func (f *Frame) appendLemmas(s, t, res *Term, n int64) {
	if s.open || t.open {
		return
	}
	es := slArr(s).Sort.Elem
	cn := "contains$" + sanitize(s.Sort.Name)
	if _, used := symDecls[cn]; !used {
		return
	}
	C := func(sl, x *Term) *Term { return app(cn, sortBool, sl, x) }
	bx, x := freshBVar("x", es)
	var eqs []*Term
	for i := int64(0); i < n; i++ {
		e := tSelect(slArr(t), tInt(i))
		f.root.hyps = append(f.root.hyps, C(res, e))
		eqs = append(eqs, tEq(x, e))
	}
	f.root.hyps = append(f.root.hyps,
		mkForallPat([]BVar{bx}, tImp(C(s, x), C(res, x)), []*Term{C(s, x)}, []*Term{C(res, x)}))
	bx2, x2 := freshBVar("x", es)
	var eqs2 []*Term
	for i := int64(0); i < n; i++ {
		eqs2 = append(eqs2, tEq(x2, tSelect(slArr(t), tInt(i))))
	}
	_ = eqs
	f.root.hyps = append(f.root.hyps,
		mkForallPat([]BVar{bx2}, tImp(C(res, x2), tOr(append([]*Term{C(s, x2)}, eqs2...)...)), []*Term{C(res, x2)}))
}

// filterStringsModel: util.FilterStrings(heap, cond) keeps exactly the elements satisfying cond (order kept; the
// model states membership and length only). The predicate is obtained by running the closure body on a bound
// element. Trusted model of a 9-line helper.
func filterStringsModel(f *Frame, ins ssa.Instruction, call *ssa.CallCommon, ct *callTarget, st *State) Value {
	f.root.notes["assumed contract: util.FilterStrings (result members = members of the input satisfying the predicate)"] = true
	heap := f.asTerm(ct.args[0], ct.argTypes[0], st)
	var clo *Closure
	switch x := ct.args[1].(type) {
	case *Closure:
		clo = x
	case *Term:
		clo = f.eng.closureByTerm[x]
	}
	res := fresh("filtered", heap.Sort)
	f.addHyp(st.pc, tAnd(tGe(slLen(res), tInt(0)), tLe(slLen(res), slLen(heap))))
	if clo == nil || len(clo.Fn.Blocks) == 0 {
		f.note("FilterStrings with an unknown predicate: result members unconstrained (subset only)")
		bx, x := freshBVar("x", sortStr)
		f.root.hyps = append(f.root.hyps, tImp(st.pc, mkQuant("forall", []BVar{bx}, tImp(containsTerm(res, x), containsTerm(heap, x)))))
		return res
	}
	bx, x := freshBVar("x", sortStr)
	sub := f.eng.newFrame(clo.Fn, f)
	probe := st.clone()
	exit, results := sub.run(probe, []Value{x}, clo.Bindings)
	if exit == nil || len(results) != 1 {
		f.note("FilterStrings predicate could not be evaluated symbolically")
		return res
	}
	pred, _ := results[0].(*Term)
	if pred == nil || pred.Sort != sortBool {
		return res
	}
	f.root.hyps = append(f.root.hyps, tImp(st.pc, mkQuant("forall", []BVar{bx}, tEq(containsTerm(res, x), tAnd(containsTerm(heap, x), pred)))))
	return res
}

// funcValueCall: call through a function value that is not a known closure: closed-world case split over the named
// repo functions of that signature whose address is taken somewhere.
func (f *Frame) funcValueCall(ins ssa.Instruction, call *ssa.CallCommon, ct *callTarget, callee *Term, st *State, resType types.Type) Value {
	cands := f.eng.funcValueCandidates(call.Signature())
	if len(cands) == 0 || len(cands) > 8 {
		return nil
	}
	f.root.notes[fmt.Sprintf("closed world: call through a function value dispatches over the %d address-taken repo functions of that signature", len(cands))] = true
	var edges []inEdge
	var vals []Value
	var conds []*Term
	for _, c := range cands {
		ref := fnrefTerm(c)
		f.addHyp(tTrue(), tGt(ref, tInt(0)))
		cond := tEq(callee, ref)
		conds = append(conds, cond)
		sub := st.clone()
		sub.pc = tAnd(st.pc, cond)
		nct := *ct
		nct.fn = c
		nct.display = shortName(c)
		v := f.dispatch(ins, call, &nct, sub, resType)
		edges = append(edges, inEdge{sub, sub.pc})
		vals = append(vals, v)
	}
	// distinct function references
	for i := range cands {
		for j := i + 1; j < len(cands); j++ {
			f.addHyp(tTrue(), tNot(tEq(uf("fnref$"+sanitize(shortName(cands[i])), sortInt), uf("fnref$"+sanitize(shortName(cands[j])), sortInt))))
		}
	}
	f.safe(st, "nilfunc", tNot(tEq(callee, tInt(0))), ins.Pos(), "call of a nil function value")
	f.addHyp(st.pc, tOr(conds...))
	merged := mergeStates(edges)
	// merge results
	var res Value
	if t0, ok := vals[0].(*Term); ok {
		r := t0
		for i := len(vals) - 1; i >= 1; i-- {
			if ti, ok := vals[i].(*Term); ok {
				r = tIte(conds[i], ti, r)
			}
		}
		_ = t0
		// rebuild properly: nested ite from the last candidate
		r = vals[len(vals)-1].(*Term)
		for i := len(vals) - 2; i >= 0; i-- {
			r = tIte(conds[i], vals[i].(*Term), r)
		}
		res = r
	} else {
		res = vals[0]
	}
	*st = *merged
	return res
}
