package app

import (
	"context"
	"database/sql"
	"database/sql/driver"
	"errors"
	"fmt"
	"path/filepath"
	"slices"
	"sort"
	"strings"
	"sync"
	"testing"
	"time"

	"github.com/jmoiron/sqlx"

	"github.com/yandex/mysync/internal/dcs"
	"github.com/yandex/mysync/internal/mysql"
)

// C04: "Every manager iteration that completes with the master healthy and writable leaves the cluster such that
// (a) every HA replica the manager can reach on which semi-sync acknowledgement is enabled is a member of the
// published active-node list and (b) the number of acknowledgements the master waits for is not smaller than the
// number implied by that list's size and the configured count (so semi-sync is on whenever the list contains a
// replica). No iteration - even one cut short by a crash or a failed call at any point - destroys (a) or (b) where
// they held before it, except under a pending maintenance or switch request that blocks failover anyway. The list
// never contains cascade replicas, hosts marked for recovery, replicas with diverged transactions, replicas not
// replicating from the master beyond the inactivation delay, or replicas still too far behind in download to be made
// semi-sync, and members are evicted only while the manager can reach the master."
//
// implied(list)  = min(len(list)/2, rpl_semi_sync_master_wait_for_slave_count)   (SwitchHelper.GetRequiredWaitSlaveCount)
// effective(m)   = m's rpl_semi_sync_master_wait_for_slave_count if rpl_semi_sync_master_enabled else 0
// (a) <=> no reachable HA replica with rpl_semi_sync_slave_enabled=1 outside the published list
// (b) <=> effective(master) >= implied(published list)
//
// Every test builds real App / Cluster / Node objects over the fake coordination service and the fake MySQL servers,
// checks that (a) and (b) hold BEFORE the iteration (no maintenance, no switch request), runs the real
// App.updateActiveNodes exactly as stateManager does (manager-view cluster state from SQL, health records from the
// coordination service, old list from the coordination service) or a whole App.stateManager iteration, and evaluates
// (a), (b) and the membership clauses on the resulting fake-server / fake-coordination-service state.
//
// Observed on the unchanged tree (internal/app/app.go, deterministic):
//  1. data-lagging replicas: app.go:1015-1016 computes the count from activeNodes minus becomeDataLag, app.go:1088
//     publishes activeNodes WITH them => list [m1 r1 r2 r3 r4] (implies 2), master waits for 1: (b) false after every
//     completed iteration, both orders, direct call and whole stateManager iteration. If the download does not advance
//     (app.go:949-951) the hosts are only appended to becomeInactive: published AND counted (list 5, master waits for 2).
//  2. app.go:1066 `waitSlaveCount--`: masterFirst=true, join to a lone master: list [m1 r1] (implies 1), master plugin
//     stays OFF (adjustAfter with 0, app.go:1077-1078 / 1116); the legacy order raises the master before the loop, so it
//     needs a shrinking count to manifest (list [m1 r1], master switched OFF by app.go:1119); each order is clean in the
//     other scenario.
//  3. app.go:1173 sets the flag, app.go:1183/1189 fail, app.go:1067 drops the host: r2 keeps
//     rpl_semi_sync_slave_enabled=1 outside the published list [m1 r1]: (a) false, both orders, STOP and START failing.
//  4. app.go:1051 (masterFirst) / app.go:1078 (legacy) lower the master before app.go:1085-1088 publish: list of 5
//     (implies 2) stays while the master waits for 1 when the write fails, when the master misses the ping of
//     canShrinkActiveNodes (function returns nil), or when the process dies in between. Both orders.

const vfC04Gtid = "6dbb5a3c-8f8e-11ee-9b6a-0242ac120002:1-100"

// ---- a database/sql driver that wraps the harness driver and calls a hook before every statement (to emulate an
// event that happens between two statements of one iteration)
type vfC04HookDriver struct{}

var vfC04Hooks = struct {
	sync.Mutex
	m map[string]func(q string)
}{m: map[string]func(q string){}}

func init() { sql.Register("vfmysqlc04", vfC04HookDriver{}) }

func (vfC04HookDriver) Open(dsn string) (driver.Conn, error) {
	c, err := vfDriver{}.Open(dsn)
	if err != nil {
		return nil, err
	}
	vfC04Hooks.Lock()
	h := vfC04Hooks.m[dsn]
	vfC04Hooks.Unlock()
	return &vfC04HookConn{vfConn: c.(*vfConn), hook: h}, nil
}

type vfC04HookConn struct {
	*vfConn
	hook func(q string)
}

func (c *vfC04HookConn) QueryContext(ctx context.Context, q string, args []driver.NamedValue) (driver.Rows, error) {
	c.hook(vfInline(q, args))
	return c.vfConn.QueryContext(ctx, q, args)
}
func (c *vfC04HookConn) ExecContext(ctx context.Context, q string, args []driver.NamedValue) (driver.Result, error) {
	c.hook(vfInline(q, args))
	return c.vfConn.ExecContext(ctx, q, args)
}

// ---- scenario environment
type vfC04Env struct {
	t      *testing.T
	app    *App
	d      *vfDCS
	srv    []*vfServer // srv[0] is the master; the manager runs next to it
	master *vfServer

	hookMu sync.Mutex
	hook   func(host, q string) // called (serialised) before every statement any server receives; may be nil
}

// vfC04New: semi-sync HA cluster; servers[0] is the recorded master and the host the manager runs on.
func vfC04New(t *testing.T, waitCount int, masterFirst bool, servers ...*vfServer) *vfC04Env {
	t.Helper()
	d := newVfDCS()
	cfg := vfConfig(t)
	dir := t.TempDir()
	cfg.SemiSync = true
	cfg.RplSemiSyncMasterWaitForSlaveCount = waitCount // read by NewSwitchHelper in vfNewApp
	cfg.MasterFirstAdjustSSOrder = masterFirst
	cfg.Maintenancefile = filepath.Join(dir, "mysync.maintenance")
	cfg.Emergefile = filepath.Join(dir, "mysync.emerge")
	cfg.Resetupfile = filepath.Join(dir, "mysync.resetup")
	e := &vfC04Env{t: t, d: d, srv: servers, master: servers[0]}
	e.app = vfNewApp(t, cfg, d)
	for _, s := range servers {
		e.addNode(s)
	}
	vfSetLocal(e.app, servers[0])
	vfCompleteApp(t, e.app)
	d.put(pathMasterNode, servers[0].Host)
	return e
}

func (e *vfC04Env) addNode(srv *vfServer) {
	vfServers.Lock()
	vfServers.seq++
	seq := vfServers.seq
	dsn := fmt.Sprintf("%s#%d", srv.Host, seq)
	vfServers.m[dsn] = srv
	vfServers.Unlock()
	host := srv.Host
	vfC04Hooks.Lock()
	vfC04Hooks.m[dsn] = func(q string) {
		e.hookMu.Lock()
		defer e.hookMu.Unlock()
		if e.hook != nil {
			e.hook(host, q)
		}
	}
	vfC04Hooks.Unlock()
	srv.Version = [3]int{8, 0, 32}
	srv.UUID = fmt.Sprintf("00000000-0000-0000-0000-%012d", seq)
	srv.InnodbFlushLogAtTrxCommit, srv.SyncBinlog, srv.Uptime = 1, 1, 86400
	if srv.WaitSlaveCount == 0 {
		srv.WaitSlaveCount = 1
	}
	db, err := sql.Open("vfmysqlc04", dsn)
	if err != nil {
		e.t.Fatal(err)
	}
	e.t.Cleanup(func() {
		_ = db.Close()
		vfServers.Lock()
		delete(vfServers.m, dsn)
		vfServers.Unlock()
	})
	node := mysql.NewNodeWithDB(e.app.config, e.app.logger, srv.Host, sqlx.NewDb(db, "mysql"))
	e.d.put(dcs.JoinPath(dcs.PathHANodesPrefix, srv.Host), mysql.NodeConfiguration{})
	e.app.cluster.VerifRegisterNode(node, false)
}

// iterate: every health checker republishes, then the manager runs the active-nodes step of one iteration (direct)
// or one complete stateManager iteration (viaManager).
func (e *vfC04Env) iterate(viaManager bool) error {
	e.t.Helper()
	cs := vfHealthFromDB(e.app, e.d)
	if viaManager {
		if st := e.app.stateManager(); st != stateManager {
			e.t.Fatalf("scenario broken: manager iteration returned state %v", st)
		}
		return nil
	}
	csDcs, err := e.app.getClusterStateFromDcs()
	if err != nil {
		e.t.Fatalf("scenario broken: %v", err)
	}
	old, err := e.app.GetActiveNodes()
	if err != nil {
		e.t.Fatalf("scenario broken: %v", err)
	}
	return e.app.updateActiveNodes(cs, csDcs, old, e.master.Host)
}

type vfC04Obs struct {
	List      []string // published active-node list
	Enabled   bool     // master: rpl_semi_sync_master_enabled
	W         int      // master: rpl_semi_sync_master_wait_for_slave_count
	Effective int      // acknowledgements the master really waits for
	Implied   int      // min(len(List)/2, configured count)
	Outside   []string // reachable HA replicas with rpl_semi_sync_slave_enabled=1 that are NOT in List
	SemiSync  []string // reachable HA replicas with rpl_semi_sync_slave_enabled=1
}

func (o vfC04Obs) A() bool { return len(o.Outside) == 0 }
func (o vfC04Obs) B() bool { return o.Effective >= o.Implied }
func (o vfC04Obs) String() string {
	return fmt.Sprintf("[published list %v (implies %d ack), master: semi-sync enabled=%v wait_for_slave_count=%d (really waits for %d), "+
		"semi-sync replicas %v, of them outside the list %v => (a)=%v (b)=%v]",
		o.List, o.Implied, o.Enabled, o.W, o.Effective, o.SemiSync, o.Outside, o.A(), o.B())
}

func (e *vfC04Env) observe() vfC04Obs {
	var o vfC04Obs
	_ = e.d.Get(pathActiveNodes, &o.List)
	e.master.mu.Lock()
	o.Enabled, o.W = e.master.SemiSyncMaster, e.master.WaitSlaveCount
	e.master.mu.Unlock()
	if o.Enabled {
		o.Effective = o.W
	}
	o.Implied = min(len(o.List)/2, e.app.config.RplSemiSyncMasterWaitForSlaveCount)
	if got := e.app.switchHelper.GetRequiredWaitSlaveCount(o.List); got != o.Implied {
		e.t.Fatalf("scenario broken: GetRequiredWaitSlaveCount(%v) = %d, expected %d", o.List, got, o.Implied)
	}
	for _, s := range e.srv[1:] {
		s.mu.Lock()
		if s.Alive && s.IsReplica && s.SemiSyncSlave {
			o.SemiSync = append(o.SemiSync, s.Host)
			if !slices.Contains(o.List, s.Host) {
				o.Outside = append(o.Outside, s.Host)
			}
		}
		s.mu.Unlock()
	}
	sort.Strings(o.SemiSync)
	sort.Strings(o.Outside)
	return o
}

// requireBefore: the pre-state satisfies (a) and (b), nothing blocks failover.
func (e *vfC04Env) requireBefore() vfC04Obs {
	e.t.Helper()
	o := e.observe()
	if !o.A() || !o.B() || e.d.has(pathMaintenance) || e.d.has(pathCurrentSwitch) {
		e.t.Fatalf("scenario broken: (a)/(b) do not hold before the iteration or a request is pending: %v", o)
	}
	return o
}

func (e *vfC04Env) semiSyncStmts() string {
	var out []string
	for _, s := range e.srv {
		var st []string
		for _, q := range s.stmts("") {
			if strings.Contains(q, "semi_sync") || strings.Contains(q, "IO_THREAD") {
				st = append(st, q)
			}
		}
		if len(st) > 0 {
			out = append(out, fmt.Sprintf("%s: %q", s.Host, st))
		}
	}
	return strings.Join(out, "; ")
}

// three binary logs on the master, 2.5 GB in total
func vfC04Binlogs() []vfBinlog {
	return []vfBinlog{{"mysql-bin.000001", 1 << 30}, {"mysql-bin.000002", 1 << 30}, {"mysql-bin.000003", 512 << 20}}
}

func vfC04CaughtUp(s *vfServer) *vfServer {
	s.MasterLogFile, s.ReadMasterLogPos = "mysql-bin.000003", 512<<20
	return s
}

func vfC04SemiSyncMaster(host string, w int) *vfServer {
	m := vfMaster(host, vfC04Gtid)
	m.SemiSyncMaster, m.WaitSlaveCount = w > 0, max(w, 1)
	m.Binlogs = vfC04Binlogs()
	return m
}

func vfC04Replica(host string, semiSync bool) *vfServer {
	r := vfC04CaughtUp(vfReplica(host, "m1", vfC04Gtid))
	r.SemiSyncSlave = semiSync
	return r
}

// (1) Replicas that are far behind in download (IO thread working) are excluded from the acknowledgement count but
// still published.
// History: HA nodes m1 (master, semi-sync on, waits for 1), r1, r2 (semi-sync replicas, in the list), configured count 2;
// published list [m1 r1 r2] (implies min(3/2,2)=1): (a),(b) hold. r3 and r4 (re)join: alive, replicating from m1, same
// GTIDs, semi-sync not enabled, IO thread running, but they have only read up to mysql-bin.000001:200MB while m1 has
// 2.5 GB of binary logs => download lag 2.3 GB > semi_sync_enable_lag (100 MB). Two manager iterations, r3/r4 read
// another 100 MB in between (so "IO is working").
func TestVerifFinding_C04_DataLaggingReplicasPublished(t *testing.T) {
	for _, viaManager := range []bool{false, true} {
		for _, masterFirst := range []bool{false, true} {
			name := fmt.Sprintf("masterFirst=%v/viaStateManager=%v", masterFirst, viaManager)
			t.Run(name, func(t *testing.T) {
				m1 := vfC04SemiSyncMaster("m1", 1)
				r1, r2 := vfC04Replica("r1", true), vfC04Replica("r2", true)
				r3, r4 := vfC04Replica("r3", false), vfC04Replica("r4", false)
				for _, r := range []*vfServer{r3, r4} {
					r.MasterLogFile, r.ReadMasterLogPos = "mysql-bin.000001", 200<<20
				}
				e := vfC04New(t, 2, masterFirst, m1, r1, r2, r3, r4)
				e.d.put(pathActiveNodes, []string{"m1", "r1", "r2"})
				before := e.requireBefore()

				var obs []vfC04Obs
				for i := 0; i < 2; i++ {
					if err := e.iterate(viaManager); err != nil {
						t.Fatalf("scenario broken: iteration %d failed: %v", i+1, err)
					}
					obs = append(obs, e.observe())
					for _, r := range []*vfServer{r3, r4} { // the IO threads keep downloading
						r.mu.Lock()
						r.ReadMasterLogPos += 100 << 20
						r.mu.Unlock()
					}
				}
				after := obs[1]
				t.Logf("before %v", before)
				t.Logf("after iteration 1 %v", obs[0])
				t.Logf("after iteration 2 %v", after)
				t.Logf("semi-sync statements: %s", e.semiSyncStmts())
				lagging := []string{}
				for _, h := range []string{"r3", "r4"} {
					if slices.Contains(after.List, h) {
						lagging = append(lagging, h)
					}
				}
				if !after.B() || len(lagging) > 0 {
					t.Fatalf("VIOLATION C04: two completed iterations with a healthy writable master: replicas %v are %d bytes behind in download "+
						"(semi_sync_enable_lag=%d), were excluded from the acknowledgement count and not made semi-sync, but ARE published: "+
						"before %v; after %v", lagging, calcLagBytes(vfC04MysqlBinlogs(), "mysql-bin.000001", 300<<20), e.app.config.SemiSyncEnableLag, before, after)
				}
			})
		}
	}

	// control: r3, r4 have downloaded everything => made semi-sync, published, count raised to 2
	t.Run("control/caught-up", func(t *testing.T) {
		m1 := vfC04SemiSyncMaster("m1", 1)
		e := vfC04New(t, 2, true, m1, vfC04Replica("r1", true), vfC04Replica("r2", true), vfC04Replica("r3", false), vfC04Replica("r4", false))
		e.d.put(pathActiveNodes, []string{"m1", "r1", "r2"})
		e.requireBefore()
		if err := e.iterate(false); err != nil {
			t.Fatalf("control: %v", err)
		}
		after := e.observe()
		t.Logf("control after %v", after)
		if !after.A() || !after.B() || len(after.List) != 5 || after.Effective != 2 {
			t.Fatalf("control failed (harness problem): %v", after)
		}
	})

	// variant: the download of r3, r4 does NOT advance between the iterations ("IO is stopped, delaying"): the hosts are
	// moved to becomeInactive (semi-sync stays off) but are neither removed from the list nor from the count.
	t.Run("variant/io-not-advancing", func(t *testing.T) {
		m1 := vfC04SemiSyncMaster("m1", 1)
		r3, r4 := vfC04Replica("r3", false), vfC04Replica("r4", false)
		for _, r := range []*vfServer{r3, r4} {
			r.MasterLogFile, r.ReadMasterLogPos = "mysql-bin.000001", 200<<20
		}
		e := vfC04New(t, 2, true, m1, vfC04Replica("r1", true), vfC04Replica("r2", true), r3, r4)
		e.d.put(pathActiveNodes, []string{"m1", "r1", "r2"})
		before := e.requireBefore()
		for i := 0; i < 2; i++ {
			if err := e.iterate(false); err != nil {
				t.Fatalf("scenario broken: %v", err)
			}
		}
		after := e.observe()
		t.Logf("before %v; after %v; statements: %s", before, after, e.semiSyncStmts())
		if slices.Contains(after.List, "r3") || slices.Contains(after.List, "r4") {
			t.Fatalf("VIOLATION C04: replicas r3, r4 are 2.3 GB behind in download and their download does not advance; they are not made "+
				"semi-sync but are published AND counted (master now waits for %d acks with only %v able to acknowledge): before %v; after %v",
				after.Effective, after.SemiSync, before, after)
		}
	})
}

func vfC04MysqlBinlogs() []mysql.Binlog {
	var out []mysql.Binlog
	for _, b := range vfC04Binlogs() {
		out = append(out, mysql.Binlog{Name: b.Name, Size: b.Size})
	}
	return out
}

// (2) `waitSlaveCount--` for every replica on which enabling semi-sync failed.
// History: lone master m1 (semi-sync off, published list [m1], implies 0): (a),(b) hold. r1 and r2 join: alive,
// replicating, caught up in download, semi-sync not enabled. One statement fails during the iteration:
// SET GLOBAL rpl_semi_sync_slave_enabled = 1 on r2 (e.g. lock wait / connection reset).
func TestVerifFinding_C04_WaitCountDecrementedPerFailedEnable(t *testing.T) {
	boom := errors.New("Error 1205 (HY000): Lock wait timeout exceeded")
	for _, masterFirst := range []bool{true, false} {
		t.Run(fmt.Sprintf("join-to-lone-master/masterFirst=%v", masterFirst), func(t *testing.T) {
			m1 := vfC04SemiSyncMaster("m1", 0)
			r1, r2 := vfC04Replica("r1", false), vfC04Replica("r2", false)
			r2.FailOn = map[string]error{"rpl_semi_sync_slave_enabled = 1": boom}
			e := vfC04New(t, 1, masterFirst, m1, r1, r2)
			e.d.put(pathActiveNodes, []string{"m1"})
			before := e.requireBefore()
			err := e.iterate(false)
			after := e.observe()
			t.Logf("updateActiveNodes returned %v; before %v; after %v; statements: %s", err, before, after, e.semiSyncStmts())
			if len(r2.stmts("rpl_semi_sync_slave_enabled = 1")) == 0 {
				t.Fatalf("scenario broken: r2 never received the failing statement")
			}
			if !after.A() || !after.B() {
				t.Fatalf("VIOLATION C04: one failed call (enable semi-sync on r2) in an iteration that returned %v: the count computed for "+
					"[m1 r1 r2] (1) was decremented to 0 although the list that is published, %v, still implies %d: before %v; after %v",
					err, after.List, after.Implied, before, after)
			}
		})
	}

	// The same decrement under the legacy order needs a shrinking count: configured count 2, list [m1 r1 r2 r3 r4], master
	// waits for 2; r2, r3, r4 are dead beyond the inactivation delay; r5 joins and enabling semi-sync on it fails.
	for _, masterFirst := range []bool{false, true} {
		t.Run(fmt.Sprintf("shrink-and-failed-join/masterFirst=%v", masterFirst), func(t *testing.T) {
			m1 := vfC04SemiSyncMaster("m1", 2)
			r1, r2, r3, r4 := vfC04Replica("r1", true), vfC04Replica("r2", true), vfC04Replica("r3", true), vfC04Replica("r4", true)
			r5 := vfC04Replica("r5", false)
			r5.FailOn = map[string]error{"rpl_semi_sync_slave_enabled = 1": boom}
			e := vfC04New(t, 2, masterFirst, m1, r1, r2, r3, r4, r5)
			e.d.put(pathActiveNodes, []string{"m1", "r1", "r2", "r3", "r4"})
			for _, r := range []*vfServer{r2, r3, r4} {
				r.Alive = false
				e.app.t.Set(NodeFailedAt, r.Host, time.Now().Add(-time.Hour))
			}
			before := e.requireBefore()
			err := e.iterate(false)
			after := e.observe()
			t.Logf("updateActiveNodes returned %v; before %v; after %v; statements: %s", err, before, after, e.semiSyncStmts())
			if !after.A() || !after.B() {
				t.Fatalf("VIOLATION C04: one failed call (enable semi-sync on r5) in an iteration that returned %v: the count computed for "+
					"[m1 r1 r5] (1) was decremented to 0 => semi-sync switched OFF on the master although the published list %v implies %d: "+
					"before %v; after %v", err, after.List, after.Implied, before, after)
			}
		})
	}
}

// (3) enableSemiSyncOnSlave fails AFTER rpl_semi_sync_slave_enabled was set (the restart of the IO thread fails): the
// replica keeps the flag but is dropped from the list that is published.
// History: m1 (semi-sync on, waits for 1), r1 (semi-sync, in the list), list [m1 r1]: (a),(b) hold. r2 joins (alive,
// replicating, caught up, semi-sync off). In the iteration SET GLOBAL rpl_semi_sync_slave_enabled = 1 succeeds on r2,
// then STOP (or START) REPLICA IO_THREAD fails on r2.
func TestVerifFinding_C04_FailedIOThreadRestartLeavesSemiSyncReplicaOutsideList(t *testing.T) {
	boom := errors.New("Error 2013 (HY000): Lost connection to MySQL server during query")
	for _, failing := range []string{"STOP REPLICA IO_THREAD", "START REPLICA IO_THREAD"} {
		for _, masterFirst := range []bool{true, false} {
			t.Run(fmt.Sprintf("%s/masterFirst=%v", strings.ReplaceAll(failing, " ", "_"), masterFirst), func(t *testing.T) {
				m1 := vfC04SemiSyncMaster("m1", 1)
				r1, r2 := vfC04Replica("r1", true), vfC04Replica("r2", false)
				r2.FailOn = map[string]error{failing: boom}
				e := vfC04New(t, 1, masterFirst, m1, r1, r2)
				e.d.put(pathActiveNodes, []string{"m1", "r1"})
				before := e.requireBefore()
				err := e.iterate(false)
				after := e.observe()
				r2.mu.Lock()
				flag, io := r2.SemiSyncSlave, r2.IOThreadRunning
				r2.mu.Unlock()
				t.Logf("updateActiveNodes returned %v; before %v; after %v; r2: rpl_semi_sync_slave_enabled=%v io_thread_running=%v; statements: %s",
					err, before, after, flag, io, e.semiSyncStmts())
				if len(r2.stmts(failing)) == 0 {
					t.Fatalf("scenario broken: r2 never received %q", failing)
				}
				// informational epilogue: the failure is gone, next iteration
				r2.mu.Lock()
				r2.FailOn = nil
				r2.mu.Unlock()
				err2 := e.iterate(false)
				t.Logf("epilogue: next iteration (no failure) returned %v: %v; statements: %s", err2, e.observe(), e.semiSyncStmts())
				if !after.A() || !after.B() {
					t.Fatalf("VIOLATION C04: one failed call (%s on r2, after SET GLOBAL rpl_semi_sync_slave_enabled = 1 succeeded) in an iteration "+
						"that returned %v: r2 is reachable with rpl_semi_sync_slave_enabled=%v (io thread running=%v) but was dropped from the list "+
						"that was published: before %v; after %v", failing, err, flag, io, before, after)
				}
			})
		}
	}

	// control: no failure => r2 is made semi-sync and published
	t.Run("control/no-failure", func(t *testing.T) {
		e := vfC04New(t, 1, true, vfC04SemiSyncMaster("m1", 1), vfC04Replica("r1", true), vfC04Replica("r2", false))
		e.d.put(pathActiveNodes, []string{"m1", "r1"})
		e.requireBefore()
		if err := e.iterate(false); err != nil {
			t.Fatalf("control: %v", err)
		}
		after := e.observe()
		t.Logf("control after %v", after)
		if !after.A() || !after.B() || len(after.List) != 3 || len(after.SemiSync) != 2 {
			t.Fatalf("control failed (harness problem): %v", after)
		}
	})
}

// (4) When the list shrinks, the master's acknowledgement count is lowered BEFORE the smaller list is published.
// History: configured count 2; m1 (semi-sync on, waits for 2), r1..r4 semi-sync replicas, published list
// [m1 r1 r2 r3 r4] (implies 2): (a),(b) hold. r3 and r4 have been dead for an hour (> inactivation_delay 30 s).
// The iteration computes the new list [m1 r1 r2] (implies 1), lowers the master to 1 and then
//
//	setfail:     the write of the list to the coordination service fails (connection loss / session expired), or
//	master-blip: the master does not answer the ping of canShrinkActiveNodes (sent right after the adjustment), so the
//	             function returns nil without publishing ("will not evict"), or
//	crash:       the process dies right after the master statement (emulated by a panic out of the next call).
func TestVerifFinding_C04_WaitCountLoweredBeforeSmallerListPublished(t *testing.T) {
	for _, mode := range []string{"setfail", "master-blip", "crash"} {
		for _, masterFirst := range []bool{true, false} {
			t.Run(fmt.Sprintf("%s/masterFirst=%v", mode, masterFirst), func(t *testing.T) {
				m1 := vfC04SemiSyncMaster("m1", 2)
				r1, r2, r3, r4 := vfC04Replica("r1", true), vfC04Replica("r2", true), vfC04Replica("r3", true), vfC04Replica("r4", true)
				e := vfC04New(t, 2, masterFirst, m1, r1, r2, r3, r4)
				e.d.put(pathActiveNodes, []string{"m1", "r1", "r2", "r3", "r4"})
				for _, r := range []*vfServer{r3, r4} {
					r.Alive = false
					e.app.t.Set(NodeFailedAt, r.Host, time.Now().Add(-time.Hour))
				}
				before := e.requireBefore()

				blip := errors.New("Error 1040 (08004): Too many connections")
				adjusted := false
				switch mode {
				case "setfail":
					e.d.failSet[vfNorm(pathActiveNodes)] = errors.New("zk: connection closed")
				case "master-blip", "crash":
					e.hook = func(host, q string) {
						if host != "m1" {
							return
						}
						if strings.Contains(q, "rpl_semi_sync_master_wait_for_slave_count =") {
							adjusted = true
							if mode == "master-blip" {
								m1.mu.Lock()
								m1.FailOn = map[string]error{"SELECT 1 AS Ok": blip}
								m1.mu.Unlock()
							}
							return
						}
						if adjusted && mode == "crash" {
							panic("vfC04: mysync process killed")
						}
					}
				}
				var err error
				var crashed any
				func() {
					defer func() { crashed = recover() }()
					err = e.iterate(false)
				}()
				e.hook = nil
				m1.mu.Lock()
				m1.FailOn = nil
				m1.mu.Unlock()
				delete(e.d.failSet, vfNorm(pathActiveNodes))
				after := e.observe()
				t.Logf("updateActiveNodes returned %v (crashed: %v); before %v; after %v; statements: %s; list writes attempted: %d",
					err, crashed, before, after, e.semiSyncStmts(), e.d.count("set", pathActiveNodes))
				if len(m1.stmts("rpl_semi_sync_master_wait_for_slave_count = 1")) == 0 {
					t.Fatalf("scenario broken: the master was never adjusted")
				}
				// informational epilogue: everything works again, next iteration
				err2 := e.iterate(false)
				t.Logf("epilogue: next iteration returned %v: %v", err2, e.observe())
				if !after.A() || !after.B() {
					t.Fatalf("VIOLATION C04 (%s): the iteration (returned %v, crashed %v) lowered the master's count to the one implied by the "+
						"NEW list [m1 r1 r2] before that list was published; the list still published, %v, implies %d: before %v; after %v",
						mode, err, crashed, after.List, after.Implied, before, after)
				}
			})
		}
	}

	// control: nothing fails => count lowered and list shrunk in the same iteration
	t.Run("control/no-failure", func(t *testing.T) {
		m1 := vfC04SemiSyncMaster("m1", 2)
		r3, r4 := vfC04Replica("r3", true), vfC04Replica("r4", true)
		e := vfC04New(t, 2, true, m1, vfC04Replica("r1", true), vfC04Replica("r2", true), r3, r4)
		e.d.put(pathActiveNodes, []string{"m1", "r1", "r2", "r3", "r4"})
		for _, r := range []*vfServer{r3, r4} {
			r.Alive = false
			e.app.t.Set(NodeFailedAt, r.Host, time.Now().Add(-time.Hour))
		}
		e.requireBefore()
		if err := e.iterate(false); err != nil {
			t.Fatalf("control: %v", err)
		}
		after := e.observe()
		t.Logf("control after %v", after)
		if !after.A() || !after.B() || len(after.List) != 3 || after.Effective != 1 {
			t.Fatalf("control failed (harness problem): %v", after)
		}
	})
}
