package app

import (
	"testing"
	"time"
)

// C06: "while a manager is running outside maintenance a request never stays pending past the switchover timeout".
// History: a planned switchover filed two hours ago (timeout 1 minute); every coordination call succeeds.
func TestVerifFinding_C06_TimedOutRequestStaysPending(t *testing.T) {
	d := newVfDCS()
	cfg := vfConfig(t)
	cfg.SwitchoverTimeout = time.Minute
	app := vfNewApp(t, cfg, d)
	d.put(pathMasterNode, "m1")
	d.put(pathActiveNodes, []string{"m1", "r1"})
	d.put(pathCurrentSwitch, Switchover{From: "m1", Cause: CauseManual, InitiatedBy: "operator",
		InitiatedAt: time.Now().Add(-2 * time.Hour), MasterTransition: SwitchoverTransition})
	// one iteration suffices: the property says the request is terminal at the end of the iteration that sees it
	if st := app.stateManager(); st != stateManager {
		t.Fatalf("unexpected state %v", st)
	}
	var sw Switchover
	if err := d.Get(pathCurrentSwitch, &sw); err == nil {
		t.Fatalf("VIOLATION C06: timed-out switch request is still pending after the manager iteration (run_count=%d, rejected-record written=%v)",
			sw.RunCount, d.has(pathLastRejectedSwitch))
	}
	if !d.has(pathLastRejectedSwitch) {
		t.Fatalf("request removed but no terminal record written")
	}
}
