package app

import (
	"context"
	"database/sql"
	"database/sql/driver"
	"fmt"
	"path/filepath"
	"strings"
	"sync"
	"testing"
	"time"

	"github.com/jmoiron/sqlx"

	"github.com/yandex/mysync/internal/dcs"
	"github.com/yandex/mysync/internal/mysql"
)

// C19: "A node is never promoted while it carries mysync's relaxed settings or is still registered as optimising:
// optimisation is switched off on the candidates before a switchover freezes them and any pre-switchover speed-up
// phase has ended, with settings restored, before the freeze."
//
// History: semi-sync HA cluster m1 (writable master), r1, r2 (running semi-sync replicas, same GTIDs as the master,
// default durability settings sync_binlog=1 / innodb_flush_log_at_trx_commit=1 everywhere). r1 reports
// Seconds_Behind_Source = 300 s (>= optimization_config.high_replication_mark = 120 s). Nothing is registered as
// optimising. The operator files a planned switchover m1 => r1 (cause manual). The manager (running on r2) runs ONE
// stateManager iteration: approveSwitchover, StartSwitchover, performSwitchover:
//   stopActiveNodeOptimization (registry empty: nothing to do)
//   optimizationPhase: optController.Enable(r1) registers r1 (Status ""), a goroutine calls optSyncer.Sync on a 3 s
//     ticker, optController.Wait polls on its own 3 s ticker and returns as soon as the registry entry is not
//     "enabled" - and no code ever writes "enabled" - i.e. at its first tick, without deregistering r1 and without
//     restoring any setting; the syncer tick (created first, so it fires first) classifies r1 as "planned for
//     optimisation" and runs OptimizeReplication on it (sync_binlog=1000, innodb_flush_log_at_trx_commit=2)
//   phase 1 freeze (SET GLOBAL super_read_only = 1 everywhere) ... phase 6 promotion (SET GLOBAL read_only = 0 on r1)
//
// The test snapshots, at the moment r1 RECEIVES its first freeze statement and at the moment it RECEIVES the
// promotion statement: (a) is r1 listed under optimization_nodes/ in the coordination service, (b) are r1's
// durability settings relaxed.
//
// Observed (16 cores and GOMAXPROCS=1, 10 runs): (a) holds at freeze and at promotion in every run (nothing deletes
// the entry that Enable created). (b) holds at promotion in every run; at the freeze it depends on the goroutine
// interleaving: the syncer's Sync is still running when Wait returns and cancels the context (the context is only
// looked at between ticks), so its two SET GLOBAL statements race with the freeze - in some runs r1 receives
// sync_binlog=1000 only AFTER its first read-only statement (innodb_flush_log_at_trx_commit=2 was already set).
// If the syncer goroutine lost the race for its first tick against the cancellation (not observed), only (a) would hold.
// Epilogue: the next ordinary manager iteration deregisters r1 (it is a master now => "malfunctioning") and "restores"
// the settings of r1 to those of the master - r1 itself - so the new master keeps sync_binlog=1000 /
// innodb_flush_log_at_trx_commit=2 indefinitely.

// ---- a database/sql driver that wraps the harness driver and calls a hook before every statement
type vfHookDriver struct{}

var vfHooks = struct {
	sync.Mutex
	m map[string]func(q string)
}{m: map[string]func(q string){}}

func init() { sql.Register("vfmysqlhook", vfHookDriver{}) }

func (vfHookDriver) Open(dsn string) (driver.Conn, error) {
	c, err := vfDriver{}.Open(dsn)
	if err != nil {
		return nil, err
	}
	vfHooks.Lock()
	h := vfHooks.m[dsn]
	vfHooks.Unlock()
	return &vfHookConn{vfConn: c.(*vfConn), hook: h}, nil
}

type vfHookConn struct {
	*vfConn
	hook func(q string)
}

func (c *vfHookConn) QueryContext(ctx context.Context, q string, args []driver.NamedValue) (driver.Rows, error) {
	c.hook(vfInline(q, args))
	return c.vfConn.QueryContext(ctx, q, args)
}
func (c *vfHookConn) ExecContext(ctx context.Context, q string, args []driver.NamedValue) (driver.Result, error) {
	c.hook(vfInline(q, args))
	return c.vfConn.ExecContext(ctx, q, args)
}

// vfAddHookedNode is vfAddNode (HA node) with a hook called before every statement the server receives.
func vfAddHookedNode(t *testing.T, app *App, d *vfDCS, srv *vfServer, hook func(q string)) *mysql.Node {
	t.Helper()
	vfServers.Lock()
	vfServers.seq++
	seq := vfServers.seq
	dsn := fmt.Sprintf("%s#%d", srv.Host, seq)
	vfServers.m[dsn] = srv
	vfServers.Unlock()
	vfHooks.Lock()
	vfHooks.m[dsn] = hook
	vfHooks.Unlock()
	srv.Version = [3]int{8, 0, 32}
	srv.UUID = fmt.Sprintf("00000000-0000-0000-0000-%012d", seq)
	srv.InnodbFlushLogAtTrxCommit, srv.SyncBinlog, srv.Uptime, srv.WaitSlaveCount = 1, 1, 86400, 1
	db, err := sql.Open("vfmysqlhook", dsn)
	if err != nil {
		t.Fatal(err)
	}
	t.Cleanup(func() { _ = db.Close() })
	node := mysql.NewNodeWithDB(app.config, app.logger, srv.Host, sqlx.NewDb(db, "mysql"))
	d.put(dcs.JoinPath(dcs.PathHANodesPrefix, srv.Host), mysql.NodeConfiguration{})
	app.cluster.VerifRegisterNode(node, false)
	return node
}

type vfC19Snap struct {
	taken      bool
	at         time.Duration
	registered bool
	syncBinlog int
	flushLog   int
}

func (s vfC19Snap) relaxed() bool { return s.syncBinlog != 1 || s.flushLog != 1 }
func (s vfC19Snap) String() string {
	if !s.taken {
		return "<statement never received>"
	}
	return fmt.Sprintf("[t+%.1fs: (a) r1 registered as optimising=%v, (b) relaxed settings=%v (sync_binlog=%d, innodb_flush_log_at_trx_commit=%d)]",
		s.at.Seconds(), s.registered, s.relaxed(), s.syncBinlog, s.flushLog)
}

const vfC19Gtid = "6dbb5a3c-8f8e-11ee-9b6a-0242ac120002:1-100"
const vfC19Registry = "optimization_nodes" // internal/app/dcs/dcs.go pathOptimizationNodes

func TestVerifFinding_C19_OptimizationPhaseLeavesCandidateOptimisingAtFreezeAndPromotion(t *testing.T) {
	d := newVfDCS()
	cfg := vfConfig(t)
	dir := t.TempDir()
	cfg.SemiSync = true // the pre-switchover speed-up phase is only allowed on semi-sync clusters
	cfg.Maintenancefile = filepath.Join(dir, "mysync.maintenance")
	cfg.Emergefile = filepath.Join(dir, "mysync.emerge")
	cfg.Resetupfile = filepath.Join(dir, "mysync.resetup")
	app := vfNewApp(t, cfg, d)

	m1 := vfMaster("m1", vfC19Gtid)
	m1.SemiSyncMaster = true
	r1 := vfReplica("r1", "m1", vfC19Gtid)
	r2 := vfReplica("r2", "m1", vfC19Gtid)
	r1.SemiSyncSlave, r2.SemiSyncSlave = true, true
	lag := 300.0
	r1.SecondsBehind = &lag

	start := time.Now()
	var freeze, promote vfC19Snap
	var snapMu sync.Mutex
	snapshot := func() vfC19Snap {
		s := vfC19Snap{taken: true, at: time.Since(start)}
		d.mu.Lock()
		s.registered = d.has(vfC19Registry + "/r1")
		d.mu.Unlock()
		r1.mu.Lock()
		s.syncBinlog, s.flushLog = r1.SyncBinlog, r1.InnodbFlushLogAtTrxCommit
		r1.mu.Unlock()
		return s
	}
	hook := func(q string) {
		snapMu.Lock()
		defer snapMu.Unlock()
		if !freeze.taken && strings.HasPrefix(q, "SET GLOBAL") && strings.Contains(q, "read_only = 1") {
			freeze = snapshot()
		}
		if !promote.taken && q == "SET GLOBAL read_only = 0" {
			promote = snapshot()
		}
	}

	vfAddNode(t, app, d, m1, false)
	vfAddHookedNode(t, app, d, r1, hook)
	vfAddNode(t, app, d, r2, false)
	vfSetLocal(app, r2)
	vfCompleteApp(t, app)
	cs := vfHealthFromDB(app, d)
	if st := cs["r1"]; st == nil || st.SlaveState == nil || st.SlaveState.ReplicationLag == nil || *st.SlaveState.ReplicationLag != 300 ||
		st.ReplicationSettings == nil || st.ReplicationSettings.SyncBinlog != 1 {
		t.Fatalf("scenario broken: r1 is not seen as a lagging replica with default settings: %+v", st)
	}
	d.put(pathMasterNode, "m1")
	d.put(pathActiveNodes, []string{"m1", "r1", "r2"})
	d.put(pathCurrentSwitch, Switchover{From: "", To: "r1", Cause: CauseManual, InitiatedBy: "operator",
		InitiatedAt: time.Now(), MasterTransition: SwitchoverTransition})
	if d.has(vfC19Registry + "/r1") {
		t.Fatalf("scenario broken: r1 registered before the switchover")
	}
	d.ops = nil
	start = time.Now()

	st := app.stateManager()
	elapsed := time.Since(start)
	time.Sleep(300 * time.Millisecond) // let a syncer goroutine that is still inside Sync finish

	var master string
	_ = d.Get(pathMasterNode, &master)
	var last Switchover
	lastErr := d.Get(pathLastSwitch, &last)
	t.Logf("iteration returned %v after %.1fs; recorded master %q; last switch: %+v (%v)", st, elapsed.Seconds(), master, last, lastErr)
	t.Logf("statements received by r1: %q", r1.stmts(""))
	t.Logf("coordination-service ops on the optimisation registry: %v", vfC19RegistryOps(d))
	end := snapshot()
	t.Logf("at freeze %v; at promotion %v; after the iteration %v", freeze, promote, end)

	if !freeze.taken || !promote.taken {
		t.Fatalf("scenario broken: r1 was not frozen / promoted (freeze %v, promotion %v); pending request: %v", freeze, promote, d.has(pathCurrentSwitch))
	}
	if master != "r1" || r1.ReadOnly || r1.IsReplica {
		t.Fatalf("scenario broken: r1 was not promoted (master %q, r1 read_only=%v replica=%v)", master, r1.ReadOnly, r1.IsReplica)
	}
	regOps := vfC19RegistryOps(d)
	durability := append(r1.stmts("sync_binlog"), r1.stmts("innodb_flush_log_at_trx_commit")...)

	// epilogue (informational): every health checker republishes, the manager runs its next ordinary iteration
	vfHealthFromDB(app, d)
	st2 := app.stateManager()
	after2 := snapshot()
	t.Logf("next manager iteration returned %v; r1 (now master) %v", st2, after2)

	if freeze.registered || freeze.relaxed() || promote.registered || promote.relaxed() {
		t.Fatalf("VIOLATION C19: planned switchover m1 => r1 froze and promoted r1 while it was still optimising: "+
			"when r1 received its first freeze statement (SET GLOBAL super_read_only = 1) %v; "+
			"when r1 received the promotion statement (SET GLOBAL read_only = 0) %v; "+
			"after the iteration (r1 is the recorded, writable master) %v. "+
			"Registry ops during the iteration: %v. Durability statements received by r1: %q",
			freeze, promote, end, regOps, durability)
	}
}

func vfC19RegistryOps(d *vfDCS) []vfOp {
	d.mu.Lock()
	defer d.mu.Unlock()
	var out []vfOp
	for _, o := range d.ops {
		if strings.HasPrefix(o.Path, vfC19Registry) {
			out = append(out, o)
		}
	}
	return out
}
