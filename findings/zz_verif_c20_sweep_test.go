package app

import (
	"errors"
	"strings"
	"testing"
	"time"

	"github.com/yandex/mysync/internal/dcs"
	"github.com/yandex/mysync/internal/mysql"
)

// C20 findings of the no-panic sweep (second batch). Same conventions as zz_verif_c20_panics_test.go: real App /
// Cluster / Node code over the fake coordination service and fake MySQL servers, the panic that would have killed the
// daemon is caught and reported.
//
// Common shape of (f)-(k): a function re-reads SHOW REPLICA STATUS of a host whose earlier snapshot said "replica" and
// dereferences the answer, although Node.ReplicaStatusWithTimeout documents (nil, nil) for "no replica status". The
// host lost its replica configuration in between (RESET REPLICA ALL by an operator, by another tool or by a previous
// manager's promotion that this snapshot predates).

// (f) background recovery check with a recorded master that is not a registered host.
// History: r1 (local) replicates from m0; m0 was removed from ha_nodes while the master key still names it (same data
// as finding (a), seen by the recovery checker of a host that is marked for recovery).
func TestVerifFinding_C20_CheckRecoveryRecordedMasterNotRegistered(t *testing.T) {
	app, d := vfC20App(t)
	r1 := vfReplica("r1", "m0", vfC20Gtid)
	r2 := vfReplica("r2", "m0", vfC20Gtid)
	vfAddNode(t, app, d, r1, false)
	vfAddNode(t, app, d, r2, false)
	vfSetLocal(app, r1)
	vfCompleteApp(t, app)
	d.put(pathMasterNode, "m0")
	if err := app.SetRecovery("r1"); err != nil {
		t.Fatal(err)
	}
	p, where := vfC20Catch(app.checkRecovery)
	if p != nil {
		t.Fatalf("VIOLATION C20: background recovery check panicked with the recorded master %q not registered among %v: panic: %v [%s]",
			"m0", app.cluster.AllNodeHosts(), p, where)
	}
}

// (g) repairCascadeNode: the cascade replica lost its replica status between the state snapshot and the fresh read.
func TestVerifFinding_C20_CascadeReplicaStatusVanished(t *testing.T) {
	app, d := vfC20App(t)
	m1 := vfMaster("m1", vfC20Gtid)
	b1 := vfReplica("b1", "m1", vfC20Gtid)
	c1 := vfReplica("c1", "m1", vfC20Gtid)
	vfAddNode(t, app, d, m1, false)
	vfAddNode(t, app, d, b1, false)
	cn := vfAddNode(t, app, d, c1, true)
	d.put(dcs.JoinPath(dcs.PathCascadeNodesPrefix, "c1"), mysql.CascadeNodeConfiguration{StreamFrom: "b1"})
	vfSetLocal(app, m1)
	vfCompleteApp(t, app)
	vfHealthFromDB(app, d)
	d.put(pathMasterNode, "m1")
	d.put(pathActiveNodes, []string{"m1", "b1"})
	clusterState := app.getClusterStateFromDB()
	if clusterState["c1"] == nil || clusterState["c1"].SlaveState == nil {
		t.Fatalf("scenario broken: c1 not seen as a replica")
	}
	// RESET REPLICA ALL on c1 after the snapshot
	c1.mu.Lock()
	c1.IsReplica = false
	c1.mu.Unlock()
	p, where := vfC20Catch(func() { app.repairSlaveNode(cn, clusterState, "m1") })
	if p != nil {
		t.Fatalf("VIOLATION C20: repair of cascade replica c1 panicked when its replica status vanished after the snapshot: panic: %v [%s]", p, where)
	}
}

// (h) performChangeMaster: after CHANGE REPLICATION SOURCE / START REPLICA succeeded, the status read in the wait loop
// comes back empty.
func TestVerifFinding_C20_ChangeMasterStatusVanished(t *testing.T) {
	app, d := vfC20App(t)
	m1 := vfMaster("m1", vfC20Gtid)
	r1 := vfReplica("r1", "m0", vfC20Gtid)
	vfAddNode(t, app, d, m1, false)
	vfAddNode(t, app, d, r1, false)
	vfSetLocal(app, m1)
	vfCompleteApp(t, app)
	app.config.WaitReplicationStartTimeout = 200 * 1000 * 1000 // 200ms
	r1.Hook = func(s *vfServer, q string) {
		if strings.HasPrefix(q, "START REPLICA") || strings.HasPrefix(q, "START SLAVE") {
			s.EmptyOn = map[string]bool{"SHOW REPLICA STATUS": true, "SHOW SLAVE STATUS": true}
		}
	}
	p, where := vfC20Catch(func() { _ = app.performChangeMaster("r1", "m1") })
	if p != nil {
		t.Fatalf("VIOLATION C20: re-pointing r1 panicked when SHOW REPLICA STATUS came back empty in the wait loop: panic: %v [%s]", p, where)
	}
}

// (i) MarkReplicationRunning: a repair state exists for the replica, the cooldown has passed, and the status read
// comes back empty.
func TestVerifFinding_C20_MarkReplicationRunningStatusVanished(t *testing.T) {
	app, d := vfC20App(t)
	m1 := vfMaster("m1", vfC20Gtid)
	r1 := vfReplica("r1", "m1", vfC20Gtid)
	vfAddNode(t, app, d, m1, false)
	rn := vfAddNode(t, app, d, r1, false)
	vfSetLocal(app, m1)
	vfCompleteApp(t, app)
	app.config.ReplicationRepairCooldown = 0
	ch := app.config.ReplicationChannel
	if _, err := app.getOrCreateHostRepairState(app.makeReplStateKey(rn, ch), "r1", ch); err != nil {
		t.Fatal(err)
	}
	r1.mu.Lock()
	r1.IsReplica = false
	r1.mu.Unlock()
	p, where := vfC20Catch(func() { app.MarkReplicationRunning(rn, ch) })
	if p != nil {
		t.Fatalf("VIOLATION C20: MarkReplicationRunning panicked when r1 no longer has a replica status: panic: %v [%s]", p, where)
	}
}

// (j) createRepairState (first repair attempt for a replica reported broken by the snapshot): status read is empty.
func TestVerifFinding_C20_CreateRepairStateStatusVanished(t *testing.T) {
	app, d := vfC20App(t)
	m1 := vfMaster("m1", vfC20Gtid)
	r1 := vfReplica("r1", "m1", vfC20Gtid)
	vfAddNode(t, app, d, m1, false)
	rn := vfAddNode(t, app, d, r1, false)
	vfSetLocal(app, m1)
	vfCompleteApp(t, app)
	r1.mu.Lock()
	r1.IsReplica = false
	r1.mu.Unlock()
	p, where := vfC20Catch(func() { app.TryRepairReplication(rn, "m1", app.config.ReplicationChannel) })
	if p != nil {
		t.Fatalf("VIOLATION C20: the first repair attempt for r1 panicked when r1 no longer has a replica status: panic: %v [%s]", p, where)
	}
}

// (k) checkRecovery: the second status read (for the error report) comes back empty although the first one did not.
func TestVerifFinding_C20_CheckRecoverySecondStatusVanished(t *testing.T) {
	app, d := vfC20App(t)
	m1 := vfMaster("m1", vfC20Gtid)
	r1 := vfReplica("r1", "m1", vfC20Gtid)
	vfAddNode(t, app, d, m1, false)
	vfAddNode(t, app, d, r1, false)
	vfSetLocal(app, r1)
	vfCompleteApp(t, app)
	d.put(pathMasterNode, "m1")
	if err := app.SetRecovery("r1"); err != nil {
		t.Fatal(err)
	}
	// permanently lost: replication error state
	r1.mu.Lock()
	r1.SQLThreadRunning = false
	r1.LastSQLErrno = 1236
	r1.LastError = "fatal"
	n := 0
	r1.Hook = func(s *vfServer, q string) {
		if strings.HasPrefix(q, "SHOW REPLICA STATUS") || strings.HasPrefix(q, "SHOW SLAVE STATUS") {
			n++
			if n >= 2 {
				s.IsReplica = false
			}
		}
	}
	r1.mu.Unlock()
	p, where := vfC20Catch(app.checkRecovery)
	if p != nil {
		t.Fatalf("VIOLATION C20: background recovery check panicked when the second SHOW REPLICA STATUS came back empty: panic: %v [%s]", p, where)
	}
	t.Logf("status reads: %d", n)
}

// vfC20InSubprocess: the switchover procedure runs its per-host steps in goroutines (util.RunParallel); a panic there
// cannot be recovered by the caller and kills the test binary, exactly as it kills the daemon. Tests (n)-(p) therefore
// report through the exit of the test process: on the defective tree `go test` prints the goroutine panic and FAILs.

// (n) a pending switch request while the recorded master is not a registered host.
// History: as finding (a) (m0 removed from ha_nodes, master key still names it), plus the automatic failover request
// that a previous manager filed for m0. The manager enters the switchover branch BEFORE the registered-master check.
func TestVerifFinding_C20_SwitchRequestRecordedMasterNotRegistered(t *testing.T) {
	app, d := vfC20App(t)
	r1 := vfReplica("r1", "m0", vfC20Gtid)
	r2 := vfReplica("r2", "m0", vfC20Gtid)
	vfAddNode(t, app, d, r1, false)
	vfAddNode(t, app, d, r2, false)
	vfSetLocal(app, r1)
	vfCompleteApp(t, app)
	vfHealthFromDB(app, d)
	d.put(pathMasterNode, "m0")
	d.put(pathActiveNodes, []string{"m0", "r1", "r2"})
	d.put(pathCurrentSwitch, Switchover{From: "m0", Cause: CauseAuto, MasterTransition: FailoverTransition, InitiatedBy: "r2", InitiatedAt: time.Now()})
	p, where := vfC20Catch(func() { app.stateManager() })
	if p != nil {
		t.Fatalf("VIOLATION C20: manager iteration panicked with a pending failover request for the recorded master %q which is not registered among %v: panic: %v [%s]",
			"m0", app.cluster.AllNodeHosts(), p, where)
	}
}

// (o) a pending switch request while the published active list names a host that is not registered any more.
// History: m1 master, r1, r2; active list [m1 r1 r2]; r2 is stopped and removed with `mysync host remove r2` (which
// leaves active_nodes alone); before the next healthy iteration rewrites the list an operator files `mysync switch
// --to r1`. The freeze phase walks the published list.
func TestVerifFinding_C20_SwitchRequestActiveNodeNotRegistered(t *testing.T) {
	app, d := vfC20App(t)
	m1 := vfMaster("m1", vfC20Gtid)
	r1 := vfReplica("r1", "m1", vfC20Gtid)
	vfAddNode(t, app, d, m1, false)
	vfAddNode(t, app, d, r1, false)
	vfSetLocal(app, m1)
	vfCompleteApp(t, app)
	vfHealthFromDB(app, d)
	d.put(pathMasterNode, "m1")
	d.put(pathActiveNodes, []string{"m1", "r1", "r2"})
	d.put(pathCurrentSwitch, Switchover{From: "", To: "r1", Cause: CauseManual, MasterTransition: SwitchoverTransition, InitiatedBy: "op", InitiatedAt: time.Now()})
	p, where := vfC20Catch(func() { app.stateManager() })
	if p != nil {
		t.Fatalf("VIOLATION C20: manager iteration panicked with a pending switch request while active_nodes names the unregistered host r2: panic: %v [%s]", p, where)
	}
}

// (q) entering full maintenance while the recorded master is not a registered host.
func TestVerifFinding_C20_EnterMaintenanceRecordedMasterNotRegistered(t *testing.T) {
	app, d := vfC20App(t)
	r1 := vfReplica("r1", "m0", vfC20Gtid)
	r2 := vfReplica("r2", "m0", vfC20Gtid)
	vfAddNode(t, app, d, r1, false)
	vfAddNode(t, app, d, r2, false)
	vfSetLocal(app, r1)
	vfCompleteApp(t, app)
	vfHealthFromDB(app, d)
	d.put(pathMasterNode, "m0")
	d.put(pathActiveNodes, []string{"m0", "r1", "r2"})
	d.put(pathMaintenance, Maintenance{InitiatedBy: "op", InitiatedAt: time.Now()})
	p, where := vfC20Catch(func() { app.stateManager() })
	if p != nil {
		t.Fatalf("VIOLATION C20: entering maintenance panicked with the recorded master %q not registered among %v: panic: %v [%s]",
			"m0", app.cluster.AllNodeHosts(), p, where)
	}
}

// (r) planned switchover in a semi-sync cluster while the published active list names a host that is not registered
// any more (same data as (o)). The pre-switchover speed-up phase collects the positions of all active replicas in
// goroutines (util.RunParallel): cluster.Get("r2") == nil is dereferenced there, which cannot be recovered by the
// caller - on the defective tree this test kills the test binary exactly as it kills the daemon (go test reports
// "panic: runtime error: invalid memory address" and FAIL).
func TestVerifFinding_C20_TurboPhaseActiveNodeNotRegistered(t *testing.T) {
	app, d := vfC20App(t)
	app.config.SemiSync = true
	app.config.RplSemiSyncMasterWaitForSlaveCount = 2
	app.switchHelper = mysql.NewSwitchHelper(app.config)
	m1 := vfMaster("m1", vfC20Gtid)
	r1 := vfReplica("r1", "m1", vfC20Gtid)
	r2 := vfReplica("r2", "m1", vfC20Gtid)
	r3 := vfReplica("r3", "m1", vfC20Gtid)
	m1.SemiSyncMaster, m1.WaitSlaveCount = true, 2
	r1.SemiSyncSlave, r2.SemiSyncSlave, r3.SemiSyncSlave = true, true, true
	vfAddNode(t, app, d, m1, false)
	vfAddNode(t, app, d, r1, false)
	vfAddNode(t, app, d, r2, false)
	vfAddNode(t, app, d, r3, false)
	vfSetLocal(app, m1)
	vfCompleteApp(t, app)
	vfHealthFromDB(app, d)
	d.put(pathMasterNode, "m1")
	d.put(pathActiveNodes, []string{"m1", "r1", "r2", "r3", "r4"})
	d.put(pathCurrentSwitch, Switchover{From: "m1", Cause: CauseManual, MasterTransition: SwitchoverTransition, InitiatedBy: "op", InitiatedAt: time.Now()})
	p, where := vfC20Catch(func() { app.stateManager() })
	if p != nil {
		t.Fatalf("VIOLATION C20: manager iteration panicked in the pre-switchover phase while active_nodes names the unregistered host r4: panic: %v [%s]", p, where)
	}
	var sw, rej, last Switchover
	_ = d.Get(pathCurrentSwitch, &sw)
	_ = d.Get(pathLastRejectedSwitch, &rej)
	_ = d.Get(pathLastSwitch, &last)
	t.Logf("no panic; pending: %+v %+v; rejected: %+v; last: %+v %+v", sw, sw.Result, rej.Result, last, last.Result)
}

// (s) as (r), but the switch request names the stale member itself as the target (`mysync switch --to r4` filed while
// r4 was a member; r4 was removed afterwards and is still in active_nodes): the speed-up phase registers
// cluster.Get("r4") == nil for optimisation.
func TestVerifFinding_C20_TurboPhaseTargetNotRegistered(t *testing.T) {
	app, d := vfC20App(t)
	app.config.SemiSync = true
	app.config.RplSemiSyncMasterWaitForSlaveCount = 2
	app.switchHelper = mysql.NewSwitchHelper(app.config)
	m1 := vfMaster("m1", vfC20Gtid)
	r1 := vfReplica("r1", "m1", vfC20Gtid)
	r2 := vfReplica("r2", "m1", vfC20Gtid)
	r3 := vfReplica("r3", "m1", vfC20Gtid)
	m1.SemiSyncMaster, m1.WaitSlaveCount = true, 2
	r1.SemiSyncSlave, r2.SemiSyncSlave, r3.SemiSyncSlave = true, true, true
	vfAddNode(t, app, d, m1, false)
	vfAddNode(t, app, d, r1, false)
	vfAddNode(t, app, d, r2, false)
	vfAddNode(t, app, d, r3, false)
	vfSetLocal(app, m1)
	vfCompleteApp(t, app)
	vfHealthFromDB(app, d)
	d.put(pathMasterNode, "m1")
	d.put(pathActiveNodes, []string{"m1", "r1", "r2", "r3", "r4"})
	d.put(pathCurrentSwitch, Switchover{To: "r4", Cause: CauseManual, MasterTransition: SwitchoverTransition, InitiatedBy: "op", InitiatedAt: time.Now()})
	p, where := vfC20Catch(func() { app.stateManager() })
	if p != nil {
		t.Fatalf("VIOLATION C20: manager iteration panicked with a pending switch request to r4, which is in active_nodes but not registered any more: panic: %v [%s]", p, where)
	}
}

// (t) repairCascadeNode with the master as fallback source while the master's state is incomplete.
// History: m1 master, r2 HA replica, b1 HA replica (dead), c1 cascade replica configured with stream_from = b1 but
// currently streaming from r2. In this iteration SHOW REPLICA STATUS on m1 fails with a transient error although m1
// answers pings: the manager's state for m1 has PingOk and neither MasterState nor SlaveState (IsMaster false).
// findBestStreamFrom falls back to the master for c1 (b1 is unhealthy), the candidate differs from the current source,
// and the GTID guard reads candidateState.SlaveState.ExecutedGtidSet of the master.
func TestVerifFinding_C20_CascadeFallbackMasterStateIncomplete(t *testing.T) {
	app, d := vfC20App(t)
	m1 := vfMaster("m1", vfC20Gtid)
	r2 := vfReplica("r2", "m1", vfC20Gtid)
	b1 := vfReplica("b1", "m1", vfC20Gtid)
	c1 := vfReplica("c1", "r2", vfC20Gtid)
	vfAddNode(t, app, d, m1, false)
	vfAddNode(t, app, d, r2, false)
	vfAddNode(t, app, d, b1, false)
	cn := vfAddNode(t, app, d, c1, true)
	d.put(dcs.JoinPath(dcs.PathCascadeNodesPrefix, "c1"), mysql.CascadeNodeConfiguration{StreamFrom: "b1"})
	vfSetLocal(app, r2)
	vfCompleteApp(t, app)
	b1.mu.Lock()
	b1.Alive = false
	b1.mu.Unlock()
	m1.mu.Lock()
	m1.FailOn = map[string]error{"SHOW REPLICA STATUS": errors.New("Error 1317: Query execution was interrupted"), "SHOW SLAVE STATUS": errors.New("Error 1317: Query execution was interrupted")}
	m1.mu.Unlock()
	clusterState := app.getClusterStateFromDB()
	ms := clusterState["m1"]
	if ms == nil || !ms.PingOk || ms.IsMaster || ms.SlaveState != nil || ms.MasterState != nil {
		t.Fatalf("scenario broken: state of m1 is %+v", ms)
	}
	p, where := vfC20Catch(func() { app.repairSlaveNode(cn, clusterState, "m1") })
	if p != nil {
		t.Fatalf("VIOLATION C20: repair of cascade replica c1 panicked with the master as fallback source while the master's state has neither MasterState nor SlaveState: panic: %v [%s]", p, where)
	}
}

// (u) updateActiveNodes with master_first_adjust_ss_order while the master's state is incomplete.
// History: semi-sync cluster m1 <- r1 (semi-sync member), r2 healthy replica about to join the HA group. In this
// iteration SHOW REPLICA STATUS on m1 fails with a transient error after a successful ping, so the manager's state for
// m1 has PingOk but no MasterState / SemiSyncState. With master_first_adjust_ss_order: true the master-side adjustment
// is skipped before the replicas are handled (0 < 0 is false), and enableSemiSyncOnSlave reads
// masterState.MasterState.ExecutedGtidSet.
func TestVerifFinding_C20_EnableSemiSyncMasterStateIncomplete(t *testing.T) {
	app, d := vfC20App(t)
	app.config.SemiSync = true
	app.config.MasterFirstAdjustSSOrder = true
	app.switchHelper = mysql.NewSwitchHelper(app.config)
	m1 := vfMaster("m1", vfC20Gtid)
	r1 := vfReplica("r1", "m1", vfC20Gtid)
	r2 := vfReplica("r2", "m1", vfC20Gtid)
	m1.SemiSyncMaster, m1.WaitSlaveCount = true, 1
	r1.SemiSyncSlave = true
	vfAddNode(t, app, d, m1, false)
	vfAddNode(t, app, d, r1, false)
	vfAddNode(t, app, d, r2, false)
	vfSetLocal(app, r1)
	vfCompleteApp(t, app)
	vfHealthFromDB(app, d)
	d.put(pathMasterNode, "m1")
	d.put(pathActiveNodes, []string{"m1", "r1"})
	m1.mu.Lock()
	m1.FailOn = map[string]error{"SHOW REPLICA STATUS": errors.New("Error 1317: Query execution was interrupted"), "SHOW SLAVE STATUS": errors.New("Error 1317: Query execution was interrupted")}
	m1.mu.Unlock()
	clusterState := app.getClusterStateFromDB()
	clusterStateDcs, err := app.getClusterStateFromDcs()
	if err != nil {
		t.Fatal(err)
	}
	if ms := clusterState["m1"]; ms == nil || !ms.PingOk || ms.MasterState != nil {
		t.Fatalf("scenario broken: state of m1 is %+v", ms)
	}
	p, where := vfC20Catch(func() { _ = app.updateActiveNodes(clusterState, clusterStateDcs, []string{"m1", "r1"}, "m1") })
	if p != nil {
		t.Fatalf("VIOLATION C20: updating the active nodes panicked while r2 joins the HA group and the master's state is incomplete (master_first_adjust_ss_order): panic: %v [%s]", p, where)
	}
}

