package app

import (
	"path/filepath"
	"testing"
	"time"
)

// C09: "While full maintenance is acknowledged, no mysync process changes ... the recorded master".
//
// History: HA cluster m1 (alive, writable master), r1 (running replica); FULL maintenance is acknowledged in the
// coordination service (mysync_paused=true). The master key is present (control) or absent (lost / removed by the
// operator during the maintenance). A freshly (re)started mysync on r1 goes stateFirstRun -> (takes the manager
// lock) -> stateManager and runs one manager iteration.
func vfC09Scenario(t *testing.T, masterKeyPresent bool) (*App, *vfDCS) {
	d := newVfDCS()
	cfg := vfConfig(t)
	dir := t.TempDir()
	cfg.Maintenancefile = filepath.Join(dir, "mysync.maintenance")
	cfg.Emergefile = filepath.Join(dir, "mysync.emerge")
	cfg.Resetupfile = filepath.Join(dir, "mysync.resetup")
	app := vfNewApp(t, cfg, d)
	m1 := vfMaster("m1", vfC09Gtid)
	r1 := vfReplica("r1", "m1", vfC09Gtid)
	vfAddNode(t, app, d, m1, false)
	vfAddNode(t, app, d, r1, false)
	vfSetLocal(app, r1)
	vfHealthFromDB(app, d)
	d.put(pathActiveNodes, []string{"m1", "r1"})
	d.put(pathMaintenance, Maintenance{InitiatedBy: "operator", InitiatedAt: time.Now().Add(-10 * time.Minute),
		MySyncPaused: true, Mode: FullMode})
	if masterKeyPresent {
		d.put(pathMasterNode, "m1")
	}
	d.ops = nil
	return app, d
}

const vfC09Gtid = "6dbb5a3c-8f8e-11ee-9b6a-0242ac120002:1-100"

func TestVerifFinding_C09_MasterKeyWrittenUnderFullMaintenance(t *testing.T) {
	// control: master key present => the iteration only observes and goes to the maintenance state
	app, d := vfC09Scenario(t, true)
	if st := app.stateFirstRun(); st != stateManager {
		t.Fatalf("control: restarted mysync did not become manager: %v", st)
	}
	if st := app.stateManager(); st != stateMaintenance {
		t.Fatalf("control: unexpected state %v", st)
	}
	if n := d.count("set", pathMasterNode); n != 0 {
		t.Fatalf("control: master key written %d times", n)
	}

	app, d = vfC09Scenario(t, false)
	if st := app.stateFirstRun(); st != stateManager {
		t.Fatalf("restarted mysync did not become manager: %v", st)
	}
	st := app.stateManager()
	var maint Maintenance
	if err := d.Get(pathMaintenance, &maint); err != nil || maint.IsLightMode() || !maint.MaintAcquired() {
		t.Fatalf("scenario broken: full maintenance is no longer acknowledged: %+v, %v", maint, err)
	}
	if n := d.count("set", pathMasterNode); n > 0 || d.has(pathMasterNode) {
		var master string
		_ = d.Get(pathMasterNode, &master)
		t.Fatalf("VIOLATION C09: the manager wrote the master key (%d write(s), now %q) while full maintenance is acknowledged "+
			"(%s); the iteration then returned state %v. All coordination-service writes of the iteration: %v",
			n, master, maint.String(), st, vfWrites(d))
	}
	if st != stateMaintenance {
		t.Fatalf("unexpected state %v", st)
	}
}

func vfWrites(d *vfDCS) []vfOp {
	var out []vfOp
	for _, o := range d.ops {
		if o.Op == "set" || o.Op == "create" || o.Op == "delete" {
			out = append(out, o)
		}
	}
	return out
}
