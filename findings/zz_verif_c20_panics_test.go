package app

import (
	"errors"
	"fmt"
	"os"
	"path/filepath"
	"runtime/debug"
	"strings"
	"testing"

	"github.com/yandex/mysync/internal/dcs"
	"github.com/yandex/mysync/internal/mysql"
)

// C20: "No mysync iteration or background check terminates the process ... whatever the coordination service and
// MySQL servers contain or return - including hosts added or removed at any moment, a recorded master or a configured
// replication source that is no longer registered, missing or stale health records ..."
//
// Every test below builds a history out of real App / Cluster / Node code over the fake coordination service and the
// fake MySQL servers, runs the real state function / background check and catches the panic that would have killed
// the mysync process (there is no recover() anywhere in the daemon: a panic in the main loop or in the recovery
// checker goroutine terminates it).

const vfC20Gtid = "6dbb5a3c-8f8e-11ee-9b6a-0242ac120002:1-100"

// vfC20Catch runs f and returns the recovered panic value (nil if none) and the frames of internal/app on the stack.
func vfC20Catch(f func()) (val any, where string) {
	defer func() {
		if r := recover(); r != nil {
			val = r
			var frames []string
			lines := strings.Split(string(debug.Stack()), "\n")
			for i, l := range lines {
				if strings.Contains(l, "/internal/app/") && !strings.Contains(l, "zz_verif_") && i > 0 {
					fn := strings.TrimSpace(lines[i-1])
					if j := strings.LastIndex(fn, "("); j > 0 {
						fn = fn[:j]
					}
					fn = fn[strings.LastIndex(fn, "/")+1:]
					loc := strings.TrimSpace(l)
					loc = loc[strings.Index(loc, "/internal/app/")+1:]
					if j := strings.Index(loc, " "); j > 0 {
						loc = loc[:j]
					}
					frames = append(frames, fn+" "+loc)
				}
			}
			where = strings.Join(frames, " <- ")
		}
	}()
	f()
	return nil, ""
}

func vfC20App(t *testing.T) (*App, *vfDCS) {
	d := newVfDCS()
	cfg := vfConfig(t)
	dir := t.TempDir()
	cfg.Maintenancefile = filepath.Join(dir, "mysync.maintenance")
	cfg.Emergefile = filepath.Join(dir, "mysync.emerge")
	cfg.Resetupfile = filepath.Join(dir, "mysync.resetup")
	return vfNewApp(t, cfg, d), d
}

// (a) recorded master not registered.
// History: HA cluster m0 (master), r1, r2. The host m0 is removed from ha_nodes (decommissioned / `mysync host remove`
// raced with a master change, or the key written by an operator) while the master key still names it. No maintenance,
// no pending switch request. The manager (on r1) runs one iteration: getCurrentMaster returns the recorded "m0",
// getClusterStateFromDcs only covers registered hosts, so clusterStateDcs["m0"] is nil.
func TestVerifFinding_C20_RecordedMasterNotRegistered(t *testing.T) {
	app, d := vfC20App(t)
	r1 := vfReplica("r1", "m0", vfC20Gtid)
	r2 := vfReplica("r2", "m0", vfC20Gtid)
	vfAddNode(t, app, d, r1, false)
	vfAddNode(t, app, d, r2, false)
	vfSetLocal(app, r1)
	vfCompleteApp(t, app)
	vfHealthFromDB(app, d)
	d.put(pathMasterNode, "m0")
	d.put(pathActiveNodes, []string{"m0", "r1", "r2"})

	var st appState
	p, where := vfC20Catch(func() { st = app.stateManager() })
	if p != nil {
		t.Fatalf("VIOLATION C20: manager iteration panicked with the recorded master %q not registered among %v: panic: %v [%s]",
			"m0", app.cluster.AllNodeHosts(), p, where)
	}
	t.Logf("no panic, state %v", st)
}

// (b1) cascade replica whose configured stream_from is not registered (dangling reference).
// History: HA cluster m1 (master), r1; cascade replica c1 currently streaming from m1 and healthy. Its cascade
// configuration says stream_from = "ghost" (the intermediate replica it was meant to stream from was removed from the
// cluster, or the name was mistyped in `mysync host add --stream-from`). Manager on m1 runs one iteration:
// repairCluster -> repairSlaveNode -> repairCascadeNode -> findBestStreamFrom: clusterState["ghost"] is nil.
func TestVerifFinding_C20_CascadeStreamFromNotRegistered(t *testing.T) {
	app, d := vfC20App(t)
	m1 := vfMaster("m1", vfC20Gtid)
	r1 := vfReplica("r1", "m1", vfC20Gtid)
	c1 := vfReplica("c1", "m1", vfC20Gtid)
	vfAddNode(t, app, d, m1, false)
	vfAddNode(t, app, d, r1, false)
	vfAddNode(t, app, d, c1, true)
	d.put(dcs.JoinPath(dcs.PathCascadeNodesPrefix, "c1"), mysql.CascadeNodeConfiguration{StreamFrom: "ghost"})
	vfSetLocal(app, m1)
	vfCompleteApp(t, app)
	vfHealthFromDB(app, d)
	d.put(pathMasterNode, "m1")
	d.put(pathActiveNodes, []string{"m1", "r1"})

	var st appState
	p, where := vfC20Catch(func() { st = app.stateManager() })
	if p != nil {
		t.Fatalf("VIOLATION C20: manager iteration panicked with cascade node c1 configured with stream_from=%q which is not registered "+
			"(registered: %v): panic: %v [%s]", "ghost", app.cluster.AllNodeHosts(), p, where)
	}
	t.Logf("no panic, state %v; statements on c1: %q", st, c1.stmts(""))
}

// (b2) cascade replica whose configured stream_from is the node itself, while its replica status is unknown.
// History: as (b1) but c1 is configured with stream_from = "c1" (nothing in `mysync host add` / the coordination
// service forbids it) and, in this iteration, SHOW REPLICA STATUS on c1 fails with a transient error (the server still
// answers pings), so the manager's state for c1 has PingOk and no SlaveState. repairCascadeNode then "blindly" calls
// performChangeMaster("c1", "c1"), which panics explicitly. (With a known replica status findBestStreamFrom's loop
// detector handles the self reference.)
func TestVerifFinding_C20_CascadeStreamFromItself(t *testing.T) {
	app, d := vfC20App(t)
	m1 := vfMaster("m1", vfC20Gtid)
	r1 := vfReplica("r1", "m1", vfC20Gtid)
	c1 := vfReplica("c1", "m1", vfC20Gtid)
	vfAddNode(t, app, d, m1, false)
	vfAddNode(t, app, d, r1, false)
	vfAddNode(t, app, d, c1, true)
	d.put(dcs.JoinPath(dcs.PathCascadeNodesPrefix, "c1"), mysql.CascadeNodeConfiguration{StreamFrom: "c1"})
	vfSetLocal(app, m1)
	vfCompleteApp(t, app)
	vfHealthFromDB(app, d)
	d.put(pathMasterNode, "m1")
	d.put(pathActiveNodes, []string{"m1", "r1"})

	// control: replica status known => the self reference is tolerated
	var st appState
	if p, where := vfC20Catch(func() { st = app.stateManager() }); p != nil {
		t.Fatalf("VIOLATION C20: manager iteration panicked with cascade node c1 configured with stream_from=c1 (replica status known): panic: %v [%s]", p, where)
	}
	if st != stateManager {
		t.Fatalf("control: unexpected state %v", st)
	}

	boom := errors.New("Error 1317 (70100): Query execution was interrupted")
	c1.mu.Lock()
	c1.FailOn = map[string]error{"SHOW REPLICA STATUS": boom, "SHOW SLAVE STATUS": boom}
	c1.mu.Unlock()
	cs := app.getClusterStateFromDB()["c1"]
	if !cs.PingOk || cs.SlaveState != nil || cs.IsMaster || !cs.IsCascade {
		t.Fatalf("scenario broken: c1 is not seen as alive cascade node with unknown replica status: %+v", cs)
	}
	p, where := vfC20Catch(func() { st = app.stateManager() })
	if p != nil {
		t.Fatalf("VIOLATION C20: manager iteration panicked with cascade node c1 configured with stream_from=c1 and a transient "+
			"error on its SHOW REPLICA STATUS: panic: %v [%s]", p, where)
	}
	t.Logf("no panic, state %v; statements on c1: %q", st, c1.stmts(""))
}

// (c) mysync started while the coordination service is unreachable and the maintenance file exists.
// History: HA cluster m1 (master), r1, healthy. mysync on r1 is (re)started while the coordination service is
// unreachable; the maintenance marker file is still on disk (the host was in full maintenance before the restart).
// stateFirstRun returns stateMaintenance WITHOUT initializeOptimizationModule(). The coordination service comes back;
// maintenance has been ended in the meantime (key absent). The main loop (emulated exactly as App.Run does: run the
// handler of the current state until the state stops changing) goes stateMaintenance -> tryLeaveMaintenance ->
// stateManager, whose healthy path ends in app.optSyncer.Sync on a nil optSyncer.
func TestVerifFinding_C20_StartedInMaintenanceWithoutDCS(t *testing.T) {
	app, d := vfC20App(t)
	m1 := vfMaster("m1", vfC20Gtid)
	r1 := vfReplica("r1", "m1", vfC20Gtid)
	vfAddNode(t, app, d, m1, false)
	vfAddNode(t, app, d, r1, false)
	vfSetLocal(app, r1)
	// what NewApp sets (and only that): externalReplication; optSyncer / optController are left to stateFirstRun
	er, err := mysql.NewExternalReplication(app.config.ExternalReplicationType, app.logger, app.config.ExternalReplicationChannel)
	if err != nil {
		t.Fatal(err)
	}
	app.externalReplication = er
	vfHealthFromDB(app, d)
	d.put(pathMasterNode, "m1")
	d.put(pathActiveNodes, []string{"m1", "r1"})
	if err := os.WriteFile(app.config.Maintenancefile, nil, 0o644); err != nil {
		t.Fatal(err)
	}
	app.config.DcsWaitTimeout = 0

	handlers := map[appState]func() appState{
		stateFirstRun:    app.stateFirstRun,
		stateManager:     app.stateManager,
		stateCandidate:   app.stateCandidate,
		stateLost:        app.stateLost,
		stateMaintenance: app.stateMaintenance,
	}
	app.state = stateFirstRun
	var trace []string
	tick := func() (any, string) { // one tick of App.Run
		return vfC20Catch(func() {
			for i := 0; i < 10; i++ {
				trace = append(trace, fmt.Sprint(app.state))
				next := handlers[app.state]()
				if next == app.state {
					return
				}
				app.state = next
			}
		})
	}

	// unreachable coordination service: not connected, reads fail with a connection error, locks cannot be taken
	d.connected, d.lockOK = false, false
	d.failGet[vfNorm(pathMaintenance)] = errors.New("zk: could not connect to a server")
	if p, where := tick(); p != nil {
		t.Fatalf("VIOLATION C20: panic while the coordination service is unreachable: panic: %v [%s]", p, where)
	}
	if app.state != stateMaintenance {
		t.Fatalf("scenario broken: expected the maintenance state after a start without coordination service, got %v (trace %v)", app.state, trace)
	}
	// on the defective tree the optimisation module is still nil here (that is the defect); on the repaired tree
	// stateFirstRun has created it and the rest of the history must run without a panic
	t.Logf("after first run without coordination service: optSyncer==nil: %v", app.optSyncer == nil)
	d.connected, d.lockOK = true, true // the coordination service is back; no maintenance key
	delete(d.failGet, vfNorm(pathMaintenance))
	for i := 0; i < 3; i++ {
		if p, where := tick(); p != nil {
			t.Fatalf("VIOLATION C20: mysync started with the coordination service unreachable and the maintenance file present "+
				"never initialises its optimisation module; after the service came back (no maintenance key) the main loop went %v and "+
				"panicked: panic: %v [%s] (optSyncer==nil: %v, optController==nil: %v)",
				trace, p, where, app.optSyncer == nil, app.optController == nil)
		}
	}
	t.Logf("no panic; states visited: %v", trace)
}

// (d) checkRecovery on a host that is the recorded master, is marked for recovery and is stuck on a semi-sync ack.
// History: m1 is the recorded master and a real master (no replica status); recovery/m1 exists (e.g. m1 was the old
// master of a switchover that marked it, and a later switch / leave-maintenance made it the recorded master again
// before its recovery check cleared the mark); a client thread on m1 is waiting for a semi-sync ack. The background
// recovery checker on m1 runs checkRecovery: sstatus == nil, oldMasterStuck == true, master == local host, so neither
// early return is taken and sstatus.GetExecutedGtidSet() is called on a nil interface.
func TestVerifFinding_C20_CheckRecoveryOnStuckRecordedMaster(t *testing.T) {
	app, d := vfC20App(t)
	m1 := vfMaster("m1", vfC20Gtid)
	r1 := vfReplica("r1", "m1", vfC20Gtid)
	vfAddNode(t, app, d, m1, false)
	vfAddNode(t, app, d, r1, false)
	vfSetLocal(app, m1)
	vfCompleteApp(t, app)
	vfHealthFromDB(app, d)
	d.put(pathMasterNode, "m1")
	d.put(pathActiveNodes, []string{"m1", "r1"})
	if err := app.SetRecovery("m1"); err != nil {
		t.Fatal(err)
	}

	// control: marked, not stuck => "waiting for manager to turn us to a new master"
	if p, where := vfC20Catch(app.checkRecovery); p != nil {
		t.Fatalf("VIOLATION C20: checkRecovery panicked on the recorded master marked for recovery (not stuck): panic: %v [%s]", p, where)
	}

	m1.mu.Lock()
	m1.WaitingSemiSyncAck = true
	m1.mu.Unlock()
	if !app.IsRecoveryNeeded(app.config.Hostname) {
		t.Fatalf("scenario broken: m1 is not marked for recovery")
	}
	if stuck, err := app.cluster.Local().IsWaitingSemiSyncAck(); err != nil || !stuck {
		t.Fatalf("scenario broken: m1 is not seen as waiting for a semi-sync ack: %v %v", stuck, err)
	}
	p, where := vfC20Catch(app.checkRecovery)
	if p != nil {
		t.Fatalf("VIOLATION C20: background recovery check panicked on m1 = recorded master, marked for recovery, no replica status, "+
			"waiting for a semi-sync ack: panic: %v [%s]", p, where)
	}
	t.Logf("no panic")
}

// (e) a master whose server answers SELECT @@GLOBAL.gtid_executed with an EMPTY result set (zero rows: a proxy or a
// server in an odd state; "whatever ... MySQL servers contain or return"). Node.GTIDExecuted maps sql.ErrNoRows to
// (nil, nil) and both of its callers dereference the result without a nil check: getNodeState (every manager
// iteration and every health check of the local node) and GTIDExecutedParsed (recovery check, switchover).
func TestVerifFinding_C20_EmptyGtidExecutedResult(t *testing.T) {
	app, d := vfC20App(t)
	m1 := vfMaster("m1", vfC20Gtid)
	r1 := vfReplica("r1", "m1", vfC20Gtid)
	vfAddNode(t, app, d, m1, false)
	vfAddNode(t, app, d, r1, false)
	vfSetLocal(app, r1)
	m1.EmptyOn = map[string]bool{"@@GLOBAL.gtid_executed": true}

	p, where := vfC20Catch(func() { _ = app.getNodeState("m1") })
	if p != nil {
		t.Fatalf("VIOLATION C20: collecting the state of master m1 panicked when the server returned zero rows for gtid_executed: panic: %v [%s]", p, where)
	}
	p, where = vfC20Catch(func() { _, _ = app.cluster.Get("m1").GTIDExecutedParsed() })
	if p != nil {
		t.Fatalf("VIOLATION C20: GTIDExecutedParsed panicked when the server returned zero rows for gtid_executed: panic: %v [%s]", p, where)
	}
}
