package app

import (
	"errors"
	"path/filepath"
	"testing"
	"time"

	nodestate "github.com/yandex/mysync/internal/app/node_state"
)

// C05: "mysync files an automatic failover request only if ... neither maintenance mode (full or light) ... is active".
//
// History: HA cluster m1 (master), r1, r2; automatic failover enabled, no failover delay; LIGHT maintenance is active
// and acknowledged in the coordination service (the marker file is only written for full maintenance, so it does not
// exist). The master dies: its health record says ping failed, the manager (running on r1) cannot reach it either,
// both replicas are alive with a disconnected IO thread. In the manager iteration under test the read of the
// maintenance key fails with a transient coordination-service error (readFails=true) or succeeds (control).
func vfC05Scenario(t *testing.T, readFails bool) (*App, *vfDCS) {
	d := newVfDCS()
	cfg := vfConfig(t)
	dir := t.TempDir()
	cfg.Failover = true
	cfg.FailoverDelay = 0
	cfg.SemiSync = false
	cfg.Maintenancefile = filepath.Join(dir, "mysync.maintenance") // does not exist
	cfg.Emergefile = filepath.Join(dir, "mysync.emerge")
	cfg.Resetupfile = filepath.Join(dir, "mysync.resetup")
	app := vfNewApp(t, cfg, d)

	m1 := vfMaster("m1", vfC05Gtid)
	r1 := vfReplica("r1", "m1", vfC05Gtid)
	r2 := vfReplica("r2", "m1", vfC05Gtid)
	for _, s := range []*vfServer{m1, r1, r2} {
		vfAddNode(t, app, d, s, false)
	}
	vfSetLocal(app, r1)
	d.put(pathMasterNode, "m1")
	d.put(pathActiveNodes, []string{"m1", "r1", "r2"})
	d.put(pathMaintenance, Maintenance{InitiatedBy: "operator", InitiatedAt: time.Now().Add(-10 * time.Minute),
		MySyncPaused: true, Mode: LightMode})

	// the master dies; replicas lose their IO thread (cannot connect to the source)
	m1.Alive = false
	for _, r := range []*vfServer{r1, r2} {
		r.IOThreadRunning, r.LastIOErrno, r.LastIOError = false, 2003, "error connecting to master"
	}
	vfHealthFromDB(app, d) // every host's health checker publishes what it sees ...
	vfHealth(d, "m1", &nodestate.NodeState{CheckBy: "m1", CheckAt: time.Now(), PingOk: false, Error: "connection refused"})

	if readFails {
		d.failGet[vfNorm(pathMaintenance)] = errors.New("zk: connection loss")
	}
	return app, d
}

const vfC05Gtid = "6dbb5a3c-8f8e-11ee-9b6a-0242ac120002:1-100"

func TestVerifFinding_C05_FailoverFiledWhenMaintenanceReadFails(t *testing.T) {
	// control: the maintenance key is readable => the failover is suppressed by light maintenance
	app, d := vfC05Scenario(t, false)
	if st := app.stateManager(); st != stateManager {
		t.Fatalf("control: unexpected state %v", st)
	}
	if d.has(pathCurrentSwitch) {
		t.Fatalf("control: a switch request was filed although light maintenance was read successfully")
	}

	// same history, but this iteration's read of the maintenance key fails with an error other than not-found
	app, d = vfC05Scenario(t, true)
	if st := app.stateManager(); st != stateManager {
		t.Fatalf("unexpected state %v", st)
	}
	var maint Maintenance
	delete(d.failGet, vfNorm(pathMaintenance))
	if err := d.Get(pathMaintenance, &maint); err != nil || !maint.IsLightMode() || !maint.MaintAcquired() {
		t.Fatalf("scenario broken: light maintenance is no longer active and acknowledged: %+v, %v", maint, err)
	}
	var sw Switchover
	if err := d.Get(pathCurrentSwitch, &sw); err == nil {
		t.Fatalf("VIOLATION C05: automatic failover request filed while light maintenance is active and acknowledged "+
			"(the maintenance key read failed in this iteration and was treated as 'no maintenance'): "+
			"request from=%s cause=%s transition=%s initiated_by=%s; maintenance record still %s",
			sw.From, sw.Cause, sw.MasterTransition, sw.InitiatedBy, maint.String())
	}
}
