package optimization

import (
	"testing"
	"time"

	"github.com/golang/mock/gomock"
	"github.com/rs/zerolog"
	"github.com/yandex/mysync/internal/config"
)

// C20 (l): Controller.Wait polls isOptimizedDuringWaiting for the replica it is speeding up before a switchover. When
// that host has no replica status any more (mysql.Node.GetReplicaStatus documents (nil, nil) for "not a replica": the
// replica configuration was reset after it was registered for optimisation), the lag is read through a nil status.
func TestVerifFinding_C20_OptimizationWaitStatusVanished(t *testing.T) {
	ctrl := gomock.NewController(t)
	defer ctrl.Finish()
	d := NewMockDCS(ctrl)
	n := NewMockNode(ctrl)
	n.EXPECT().Host().Return("r1").AnyTimes()
	d.EXPECT().GetState("r1").Return(&DCSState{Status: StatusEnabled}, nil).AnyTimes()
	n.EXPECT().GetReplicaStatus().Return(nil, nil).AnyTimes()
	logger := zerolog.Nop()
	m := NewController(config.OptimizationConfig{}, &logger, d, time.Millisecond)
	var p any
	func() {
		defer func() { p = recover() }()
		_, _ = m.isOptimizedDuringWaiting(n)
	}()
	if p != nil {
		t.Fatalf("VIOLATION C20: waiting for an optimised replica panicked when the host no longer has a replica status: panic: %v", p)
	}
}
